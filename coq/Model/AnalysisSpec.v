(* C06 as a predicate: [recipe_ok] on the public recipe structure, [Inv] on the
   collector state of Model/Analysis.v (the same statement, extended to the
   section and the block still under construction), and boolean twins
   [recipe_ok_b] / [inv_b] for computation. *)
From Coq Require Export Arith PeanoNat.
From CL Require Export Model.Analysis.
Open Scope nat_scope.

(* ---- where an item occurs: section index, the content before its step ---- *)
Record occ := { o_sec : nat; o_prev : list content; o_item : item }.

Definition content_items (c : content) : list item :=
  match c with CStep st => st_items st | CText _ => [] end.

Definition mk_occ (si : nat) (prev : list content) (it : item) : occ :=
  {| o_sec := si; o_prev := prev; o_item := it |}.

Fixpoint content_occs (si : nat) (prev rest : list content) : list occ :=
  match rest with
  | [] => []
  | c :: r => map (mk_occ si prev) (content_items c) ++ content_occs si (prev ++ [c]) r
  end.

Fixpoint sections_occs (si : nat) (secs : list section) : list occ :=
  match secs with
  | [] => []
  | s :: r => content_occs si [] (sec_content s) ++ sections_occs (S si) r
  end.

(* ---- item indices per component kind, in document order ---- *)
Inductive ckind := KIng | KCw | KTm | KIq.

Definition item_index (k : ckind) (it : item) : option nat :=
  match k, it with
  | KIng, IIngredient i | KCw, ICookware i | KTm, ITimer i | KIq, IInline i => Some i
  | _, _ => None
  end.

Fixpoint indices (k : ckind) (l : list item) : list nat :=
  match l with
  | [] => []
  | it :: r => match item_index k it with Some i => i :: indices k r | None => indices k r end
  end.

(* strictly increasing and all below n *)
Fixpoint incr_below (l : list nat) (n : nat) : Prop :=
  match l with
  | [] => True
  | a :: r => a < n /\ Forall (fun y => a < y) r /\ incr_below r n
  end.

Fixpoint incr_below_b (l : list nat) (n : nat) : bool :=
  match l with
  | [] => true
  | a :: r => (a <? n) && forallb (fun y => a <? y) r && incr_below_b r n
  end.

(* ---- relations of one component table ---- *)
Definition rel_kind (c : component) : option (nat * rtarget) :=
  match c_rel c with RDef _ _ => None | RRef j tg => Some (j, tg) end.

(* every reference carries the REF modifier, points to an earlier definition of
   the same table; a definition lists exactly the references to it, each once *)
Definition rel_ok (tbl : list component) : Prop :=
  forall i c, nth_error tbl i = Some c ->
    match c_rel c with
    | RDef rf _ =>
        NoDup rf /\
        forall k, In k rf <-> exists c', nth_error tbl k = Some c' /\ c_rel c' = RRef i TgComponent
    | RRef j tg =>
        m_ref (c_mods c) = true /\
        (tg = TgComponent -> j < i /\ exists d, nth_error tbl j = Some d /\ is_definition (c_rel d) = true)
    end.

(* a step reference addresses an earlier step of the same section, a section
   reference an earlier section *)
Definition occ_ok (ings : list component) (o : occ) : Prop :=
  match o_item o with
  | IIngredient i =>
      forall c, nth_error ings i = Some c ->
        match rel_kind c with
        | Some (j, TgStep) => exists st, nth_error (o_prev o) j = Some (CStep st)
        | Some (j, TgSection) => j < o_sec o
        | _ => True
        end
  | _ => True
  end.

(* ---- numbering, emptiness, timers ---- *)
Fixpoint step_numbers (l : list content) : list nat :=
  match l with
  | [] => []
  | CStep st :: r => st_number st :: step_numbers r
  | CText _ :: r => step_numbers r
  end.

Definition numbered (l : list content) : Prop :=
  step_numbers l = seq 1 (length (step_numbers l)).

Definition item_nonempty (it : item) : Prop :=
  match it with IText s => s <> [] | _ => True end.

Definition content_nonempty (c : content) : Prop :=
  match c with
  | CStep st => st_items st <> [] /\ Forall item_nonempty (st_items st)
  | CText t => t <> []
  end.

Definition section_ok (s : section) : Prop :=
  numbered (sec_content s) /\ Forall content_nonempty (sec_content s).

Definition timer_ok (t : rtimer) : Prop := tm_name t <> None \/ tm_qty t <> None.

Section Spec.
Variable ci_key : str -> str.

(* when analysis reported no error: reference <-> REF modifier, and a reference
   has the name of its definition up to case folding *)
Definition valid_tbl (tbl : list component) : Prop :=
  forall i c, nth_error tbl i = Some c ->
    m_ref (c_mods c) = negb (is_definition (c_rel c)) /\
    forall j, c_rel c = RRef j TgComponent ->
      exists d, nth_error tbl j = Some d /\ ci_key (c_name c) = ci_key (c_name d).

Definition table_len (r : recipe) (k : ckind) : nat :=
  match k with
  | KIng => length (r_ingredients r) | KCw => length (r_cookware r)
  | KTm => length (r_timers r) | KIq => r_inline r
  end.

(* C06 on the recipe the parser returns *)
Record recipe_ok (r : recipe) : Prop := {
  ok_order : forall k, incr_below (indices k (map o_item (sections_occs 0 (r_sections r)))) (table_len r k);
  ok_rel_ing : rel_ok (r_ingredients r);
  ok_rel_cw : rel_ok (r_cookware r);
  ok_refs : Forall (occ_ok (r_ingredients r)) (sections_occs 0 (r_sections r));
  ok_sections : Forall section_ok (r_sections r);
  ok_nonempty : Forall (fun s => section_is_empty s = false) (r_sections r);
  ok_timers : Forall timer_ok (r_timers r) }.

Definition recipe_valid_ok (r : recipe) : Prop :=
  valid_tbl (r_ingredients r) /\ valid_tbl (r_cookware r).

(* ---- the invariant of the collector ---- *)
Definition block_items (b : option blockbuf) : list item :=
  match b with Some (BStep its) => its | _ => [] end.

Definition state_occs (s : astate) : list occ :=
  sections_occs 0 (a_sections s ++ [a_cur s]) ++
  map (mk_occ (length (a_sections s)) (sec_content (a_cur s))) (block_items (a_block s)).

Definition state_len (s : astate) (k : ckind) : nat :=
  match k with
  | KIng => length (a_ingredients s) | KCw => length (a_cookware s)
  | KTm => length (a_timers s) | KIq => a_inline s
  end.

Record Inv (s : astate) : Prop := {
  inv_order : forall k, incr_below (indices k (map o_item (state_occs s))) (state_len s k);
  inv_rel_ing : rel_ok (a_ingredients s);
  inv_rel_cw : rel_ok (a_cookware s);
  inv_refs : Forall (occ_ok (a_ingredients s)) (state_occs s);
  inv_sections : Forall section_ok (a_sections s);
  inv_cur : section_ok (a_cur s);
  inv_counter : a_counter s = S (length (step_numbers (sec_content (a_cur s))));
  inv_nonempty : Forall (fun x => section_is_empty x = false) (a_sections s);
  inv_block : Forall item_nonempty (block_items (a_block s));
  inv_timers : Forall timer_ok (a_timers s);
  inv_valid : a_errors s = false -> valid_tbl (a_ingredients s) /\ valid_tbl (a_cookware s) }.

(* ---- boolean twins ---- *)
Fixpoint nat_mem (x : nat) (l : list nat) : bool :=
  match l with [] => false | y :: r => (x =? y) || nat_mem x r end.
Fixpoint nodup_b (l : list nat) : bool :=
  match l with [] => true | y :: r => negb (nat_mem y r) && nodup_b r end.

Definition target_eqb (a b : rtarget) : bool :=
  match a, b with TgComponent, TgComponent | TgStep, TgStep | TgSection, TgSection => true | _, _ => false end.

Fixpoint enumerate_from {A} (i : nat) (l : list A) : list (nat * A) :=
  match l with [] => [] | a :: r => (i, a) :: enumerate_from (S i) r end.

Definition refers_to (tbl : list component) (i k : nat) : bool :=
  match nth_error tbl k with
  | Some c' => match c_rel c' with RRef j TgComponent => j =? i | _ => false end
  | None => false
  end.

Definition rel_ok_b (tbl : list component) : bool :=
  forallb (fun ic =>
    let '(i, c) := ic in
    match c_rel c with
    | RDef rf _ =>
        nodup_b rf && forallb (refers_to tbl i) rf &&
        forallb (fun kc => negb (refers_to tbl i (fst kc)) || nat_mem (fst kc) rf) (enumerate_from 0 tbl)
    | RRef j tg =>
        m_ref (c_mods c) &&
        (negb (target_eqb tg TgComponent) ||
         ((j <? i) && match nth_error tbl j with Some d => is_definition (c_rel d) | None => false end))
    end) (enumerate_from 0 tbl).

Definition occ_ok_b (ings : list component) (o : occ) : bool :=
  match o_item o with
  | IIngredient i =>
      match nth_error ings i with
      | Some c =>
          match rel_kind c with
          | Some (j, TgStep) => match nth_error (o_prev o) j with Some (CStep _) => true | _ => false end
          | Some (j, TgSection) => j <? o_sec o
          | _ => true
          end
      | None => true
      end
  | _ => true
  end.

Fixpoint list_nat_eqb (a b : list nat) : bool :=
  match a, b with
  | [], [] => true
  | x :: a', y :: b' => (x =? y) && list_nat_eqb a' b'
  | _, _ => false
  end.

Definition item_nonempty_b (it : item) : bool := match it with IText s => negb (is_nil s) | _ => true end.
Definition content_nonempty_b (c : content) : bool :=
  match c with
  | CStep st => negb (is_nil (st_items st)) && forallb item_nonempty_b (st_items st)
  | CText t => negb (is_nil t)
  end.
Definition section_ok_b (s : section) : bool :=
  list_nat_eqb (step_numbers (sec_content s)) (seq 1 (length (step_numbers (sec_content s))))
  && forallb content_nonempty_b (sec_content s).
Definition timer_ok_b (t : rtimer) : bool := is_some (tm_name t) || is_some (tm_qty t).

Definition valid_tbl_b (tbl : list component) : bool :=
  forallb (fun c =>
    Bool.eqb (m_ref (c_mods c)) (negb (is_definition (c_rel c))) &&
    match c_rel c with
    | RRef j TgComponent =>
        match nth_error tbl j with Some d => str_eqb (ci_key (c_name c)) (ci_key (c_name d)) | None => false end
    | _ => true
    end) tbl.

Definition recipe_ok_b (r : recipe) : bool :=
  forallb (fun k => incr_below_b (indices k (map o_item (sections_occs 0 (r_sections r)))) (table_len r k))
          [KIng; KCw; KTm; KIq]
  && rel_ok_b (r_ingredients r) && rel_ok_b (r_cookware r)
  && forallb (occ_ok_b (r_ingredients r)) (sections_occs 0 (r_sections r))
  && forallb section_ok_b (r_sections r)
  && forallb (fun s => negb (section_is_empty s)) (r_sections r)
  && forallb timer_ok_b (r_timers r).

Definition inv_b (s : astate) : bool :=
  forallb (fun k => incr_below_b (indices k (map o_item (state_occs s))) (state_len s k)) [KIng; KCw; KTm; KIq]
  && rel_ok_b (a_ingredients s) && rel_ok_b (a_cookware s)
  && forallb (occ_ok_b (a_ingredients s)) (state_occs s)
  && forallb section_ok_b (a_sections s) && section_ok_b (a_cur s)
  && (a_counter s =? S (length (step_numbers (sec_content (a_cur s)))))
  && forallb (fun x => negb (section_is_empty x)) (a_sections s)
  && forallb item_nonempty_b (block_items (a_block s))
  && forallb timer_ok_b (a_timers s)
  && (a_errors s || (valid_tbl_b (a_ingredients s) && valid_tbl_b (a_cookware s))).

End Spec.
