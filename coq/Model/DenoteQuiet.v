(* C07, soundness from source texts: the class of printed documents (Model/Printer.v) for which the
   analysis pass reports NOTHING but the `>>` deprecation notice.  Like Model/Denote.v this is a statement
   about documents, not a model of Rust code: [quiet_doc] is written over the blocks of the document and
   the tables of [Denote.denote]; Proofs/PrintedDocSound.v proves that the decorated collector
   (Model/AnalysisDiag.v) pushes no diagnostic on the events of such a document.

   [Denote.adoc_ok] already excludes what the code reports as an ERROR.  [quiet_doc] excludes
   what it reports as a WARNING - each clause names the warning:
     - `>>` entries: with MODES no `[..]` key other than the three mode keys ("Unknown config metadata key") and no
       switch to text mode (there every component makes the code warn "Ignoring .. in text mode", by design);
       an entry whose key is a standard key has a value check_std_entry accepts ("Unsupported value for
       key", [std_check] an oracle), and `time` does not meet `prep time` / `cook time` ("Time overridden");
     - components mode: the omitted text of a step block has no alphanumeric character ("Ignoring text in
       define components mode", [is_alnum] = char::is_alphanumeric);
     - a scaling lock `=` only on a numeric ingredient quantity ("Unnecessary scaling lock modifier");
     - `+` only where it changes the reading (steps mode, or duplicate-reference mode with an earlier
       definition of the name), `&` only where the mode does not already make the component a reference
       ("Redundant .. modifier");
     - a reference with a quantity agrees with its definition on text / number ("Text value may prevent
       calculating total amount") and, with ADVANCED_UNITS, its unit can be added to those of the definition
       and of the earlier references ("Incompatible units ..", [unit_pq] = the physical quantity of a unit).
*)
From CL Require Export Model.Denote.
From CL Require Import Model.Parser Model.Diag Model.EventBridge Model.AnalysisLabels Model.AnalysisDiag.
From CL Require Model.Events Model.Analysis.

(* Quantity::compatible_unit succeeds: both without unit, or both with units of the same physical quantity,
   or - when one is unknown to the converter - the same unit text *)
Definition units_compat (unit_pq : str -> option N) (a b : option str) : bool :=
  match a, b with
  | None, None => true
  | Some u, Some w =>
      match unit_pq u, unit_pq w with
      | Some p, Some q => p =? q
      | _, _ => str_eqb u w
      end
  | _, _ => false
  end.

(* which of `time`, `prep time`, `cook time` is in force (the collector forgets `time` when a part comes
   and the parts when `time` comes) *)
Record tstate := { ts_time : bool; ts_prep : bool; ts_cook : bool }.
Definition ts0 : tstate := {| ts_time := false; ts_prep := false; ts_cook := false |}.

Section Quiet.
  Variable ci : str -> str.
  Variable x : Analysis.aext.
  Variable std_check : str -> str -> bool.     (* check_std_entry accepts (key, value) *)
  Variable is_alnum : N -> bool.
  Variable unit_pq : str -> option N.

  (* a scaling lock only where it has an effect *)
  Definition lock_ok (c : cspec) : bool :=
    match denote_cqty (cs_body c) with
    | Some (v, lock, _) => negb lock || (is_igr c && negb (is_text_value v))
    | None => true
    end.

  Definition qitem_ok (m : mode) (i : item) : bool :=
    match i with
    | IText t => negb (in_components m && existsb is_alnum (toks_text t))
    | IComp c => lock_ok c
    end.

  (* a `>>` entry that is read as a config entry *)
  Definition is_config (b : block) : bool := Analysis.x_modes x && Events.is_some (block_config b).

  Definition meta_kv (b : block) : str * str :=
    match b with BkMeta k v => (clean (toks_text k), trim (toks_text v)) | _ => ([], []) end.

  Definition next_ts (ts : tstate) (b : block) : tstate :=
    match b with
    | BkMeta _ _ =>
        if is_config b then ts
        else let (k, v) := meta_kv b in
             if std_check k v then
               match std_key k with
               | Some SKTime => {| ts_time := true; ts_prep := false; ts_cook := false |}
               | Some SKPrep => {| ts_time := false; ts_prep := true; ts_cook := ts_cook ts |}
               | Some SKCook => {| ts_time := false; ts_prep := ts_prep ts; ts_cook := true |}
               | _ => ts
               end
             else ts
    | _ => ts
    end.

  Definition qmeta_ok (ts : tstate) (b : block) : bool :=
    if is_config b then
      match block_config b with
      | Some (CfDefine d) => negb (match d with Analysis.DMText => true | _ => false end)
      | Some (CfDup _) => true
      | _ => false
      end
    else let (k, v) := meta_kv b in
         match std_key k with
         | None => true
         | Some sk =>
             std_check k v &&
             match sk with
             | SKOther => true
             | SKTime => negb (ts_prep ts) && negb (ts_cook ts)
             | SKPrep | SKCook => negb (ts_time ts)
             end
         end.

  Fixpoint qblocks_ok (d : list block) (m : mode) (ts : tstate) : bool :=
    match d with
    | [] => true
    | b :: r =>
        match b with
        | BkMeta _ _ => qmeta_ok ts b
        | BkStep items => forallb (qitem_ok m) items
        | _ => true
        end && qblocks_ok r (next_mode (Analysis.x_modes x) m b) (next_ts ts b)
    end.

  Section Tables.
    Variable inherit : Events.modifiers.
    Variable units : bool.                       (* the unit check applies: ingredients under ADVANCED_UNITS *)

    (* a reference with a quantity against its definition [def] = entry j of the table *)
    Definition quiet_link (tbl : list Analysis.component) (raw : Analysis.component) (j : nat) (def : Analysis.component) : bool :=
      match Analysis.c_qty raw with
      | None => true
      | Some q =>
          match Analysis.c_qty def with
          | Some dq => Bool.eqb (Analysis.qi_text q) (Analysis.qi_text dq)
          | None => true
          end &&
          (negb units ||
           match Analysis.c_rel def with
           | Analysis.RDef rf _ =>
               forallb (fun k => match nth_error tbl k with
                                 | Some c => match Analysis.c_qty c with
                                             | Some qi => units_compat unit_pq (Analysis.qi_unit qi) (Analysis.qi_unit q)
                                             | None => true
                                             end
                                 | None => false
                                 end) (j :: rf)
           | Analysis.RRef _ _ => false
           end)
      end.

    Definition quiet_entry (tbl : list Analysis.component) (e : entry) : bool :=
      en_inter e ||
      let raw := en_comp e in
      let ms := Analysis.c_mods raw in
      let found := find_def ci tbl (Analysis.c_name raw) in
      (if Events.m_new ms then in_steps (en_mode e) || (md_dupref (en_mode e) && Events.is_some found)
       else negb (Events.m_ref ms && (md_dupref (en_mode e) || in_steps (en_mode e)))) &&
      match tag_of e, found with
      | (TRef | TDup), Some j =>
          match nth_error tbl j with Some def => quiet_link tbl raw j def | None => true end
      | _, _ => true
      end.

    Fixpoint quiet_refs (tbl : list Analysis.component) (es : list entry) : bool :=
      match es with
      | [] => true
      | e :: rest => quiet_entry tbl e && quiet_refs (add_entry ci inherit tbl e) rest
      end.
  End Tables.

  Definition quiet_doc (d : list block) : bool :=
    qblocks_ok d mode0 ts0 &&
    quiet_refs inherit_igr (Analysis.x_advanced x) [] (doc_entries (Analysis.x_modes x) is_igr d mode0 ictx0) &&
    quiet_refs inherit_cw false [] (doc_entries (Analysis.x_modes x) is_cw d mode0 ictx0).

  (* the `>>` entries the deprecation notice lists: those that are not config entries *)
  Definition plain_metas (d : list block) : list block :=
    filter (fun b => is_meta_block b && negb (is_config b)) d.
End Quiet.
