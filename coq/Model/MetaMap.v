(* Model of what the analysis pass does to the metadata map:
   /repo/src/analysis/event_consumer.rs, RecipeCollector::parse_events (the arms
   YAMLFrontMatter 126-129, Metadata 130, Error 200-212), process_frontmatter 235-338
   and metadata 340-453, projected on the three fields those arms read and write for
   the map: content.metadata.map, old_style_metadata, and "a parser error was seen"
   (then there is no output).  The other fields the same arms touch (define_mode,
   duplicate_mode, ctx, old_style_metadata_used, content.data, locations) are never
   read back by them, and no other arm writes the three fields kept here, so the
   projection is a function of the event stream alone.  ParseOptions::default():
   no metadata validator.

   serde_yaml is an oracle: [Y] stands for serde_yaml::Value, [ystr] for
   Value::String, [yeqb] for the key equality of Mapping, [yaml] for
   serde_yaml::from_str::<Mapping> (None = error).  Nothing is assumed about them. *)
From CL Require Export Model.Parser.
Open Scope N_scope.

Section MetaMap.
  Variable Y : Type.
  Variable ystr : str -> Y.
  Variable yeqb : Y -> Y -> bool.
  Variable yaml : str -> option (list (Y * Y)).
  Variable modes : bool.                 (* extensions.contains(Extensions::MODES) *)

  Record mstate := { mm_map : list (Y * Y); mm_old : bool; mm_halted : bool }.

  Definition mm_init : mstate := {| mm_map := []; mm_old := true; mm_halted := false |}.

  (* Mapping::insert (IndexMap): an existing key keeps its place and gets the new value *)
  Fixpoint ym_insert (m : list (Y * Y)) (k v : Y) : list (Y * Y) :=
    match m with
    | [] => [(k, v)]
    | (k', v') :: r => if yeqb k' k then (k', v) :: r else (k', v') :: ym_insert r k v
    end.

  Definition set_map (s : mstate) (m : list (Y * Y)) : mstate :=
    {| mm_map := m; mm_old := mm_old s; mm_halted := mm_halted s |}.

  Definition cs_define : str := [100;101;102;105;110;101].
  Definition cs_mode : str := [109;111;100;101].
  Definition cs_duplicate : str := [100;117;112;108;105;99;97;116;101].

  (* key_t.starts_with('[') && key_t.ends_with(']') *)
  Definition bracketed (k : str) : bool :=
    match k with c :: _ => (c =? 91) && (last k 0 =? 93) | [] => false end.

  (* metadata() 340-453, the map only *)
  Definition mm_metadata (s : mstate) (key value : text) : mstate :=
    let key_t := text_trimmed key in
    let value_t := text_outer_trimmed value in
    if modes && bracketed key_t then
      let config_key := removelast (tl key_t) in
      if str_eqb config_key cs_define || str_eqb config_key cs_mode || str_eqb config_key cs_duplicate
      then s                                      (* switches a mode or reports an error *)
      else if mm_old s then set_map s (ym_insert (mm_map s) (ystr key_t) (ystr value_t))
      else s
    else set_map s (ym_insert (mm_map s) (ystr key_t) (ystr value_t)).

  (* one iteration of the event loop *)
  Definition mm_step (s : mstate) (ev : pevent) : mstate :=
    if mm_halted s then s else
    match ev with
    | EvYaml t =>
        (* 127-128, 236: old_style_metadata := false; 237-253: on a YAML error the map is left alone *)
        match yaml (text_str t) with
        | Some m => {| mm_map := m; mm_old := false; mm_halted := false |}
        | None => {| mm_map := mm_map s; mm_old := false; mm_halted := false |}
        end
    | EvMetadata k v => mm_metadata s k v
    | EvDiag d => if d_err d then {| mm_map := mm_map s; mm_old := mm_old s; mm_halted := true |} else s
    | _ => s
    end.

  Definition mm_run (s : mstate) (evs : list pevent) : mstate := fold_left mm_step evs s.

  (* PassResult::output of parse_events(..).map(|c| c.metadata): None after a parser error *)
  Definition mm_output (s : mstate) : option (list (Y * Y)) :=
    if mm_halted s then None else Some (mm_map s).

  Definition metadata_of (evs : list pevent) : option (list (Y * Y)) := mm_output (mm_run mm_init evs).
End MetaMap.
