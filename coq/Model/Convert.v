(* Model of unit conversion: /repo/src/convert/mod.rs (Converter, BestConversions,
   ScaledQuantity::{convert,fit,fit_fraction,try_fraction}), the single-file path of
   /repo/src/convert/builder.rs, and the data types of /repo/src/quantity.rs they use.
   f64 is modelled by exact rationals Q; decimal literals of the source are the
   exact decimals.  Panics are [Panic site] outcomes. *)
From Coq Require Export QArith Qabs.
From CL Require Export Base.Chars.
Open Scope Q_scope.

(* ---------------------------------------------------------------- data *)

Inductive pq := Volume | Mass | Length | Temperature | Time.     (* mod.rs 404-410 *)
Inductive system := Metric | Imperial.                           (* mod.rs 784-788 *)

Definition pq_eqb (a b : pq) : bool :=
  match a, b with
  | Volume, Volume | Mass, Mass | Length, Length | Temperature, Temperature | Time, Time => true
  | _, _ => false
  end.
Definition sys_eqb (a b : system) : bool :=
  match a, b with Metric, Metric | Imperial, Imperial => true | _, _ => false end.

(* mod.rs 261-276 *)
Record unit := {
  u_names : list str; u_symbols : list str; u_aliases : list str;
  u_ratio : Q; u_diff : Q; u_pq : pq; u_sys : option system }.

(* a reference to a unit stored in the converter: index in all_units + the unit.
   `std::ptr::eq` on two such references is equality of the indices. *)
Definition uref := (N * unit)%type.

(* mod.rs 220-238; accuracy is an f32, kept as its exact value *)
Record frac_cfg := { fc_enabled : bool; fc_accuracy : Q; fc_max_den : N; fc_max_whole : N }.
Definition u32_max : N := 4294967295%N.
Definition f32_0_05 : Q := 13421773 # 268435456.    (* 0.05f32 *)
Definition default_cfg : frac_cfg :=
  {| fc_enabled := false; fc_accuracy := f32_0_05; fc_max_den := 4; fc_max_whole := u32_max |}.

(* mod.rs 186-194 *)
Record fractions := {
  fr_all : option frac_cfg; fr_metric : option frac_cfg; fr_imperial : option frac_cfg;
  fr_quantity : list (pq * frac_cfg); fr_unit : list (N * frac_cfg) }.

(* mod.rs 305-352: thresholds with unit ids *)
Definition best_convs := list (Q * N).
Inductive best_store := Unified (u : best_convs) | BySystem (metric imperial : best_convs).

(* mod.rs 34-42 (quantity_index is not used by any modelled function) *)
Record converter := {
  all_units : list unit;
  unit_index : list (str * N);
  best : pq -> best_store;
  c_fractions : fractions;
  default_system : system }.

(* quantity.rs 69-87, 101-116 *)
Inductive number := Regular (v : Q) | Fraction (whole num den : N) (err : Q).
Definition NQ (n : N) : Q := inject_Z (Z.of_N n).
Definition num_value (n : number) : Q :=
  match n with
  | Regular v => v
  | Fraction w nu d e => NQ w + e + NQ nu / NQ d
  end.

(* quantity.rs 36-46, 14-19 *)
Inductive value := VNumber (n : number) | VRange (s e : number) | VText (t : str).
Record quantity := { q_value : value; q_unit : option str }.

(* mod.rs 732-739, 741-763 *)
Inductive cvalue := CNum (v : Q) | CRange (s e : Q).
Inductive cunit := CUnit (u : uref) | CKey (k : str).
Inductive cto := ToSame | ToBest (s : system) | ToUnit (u : cunit).

(* mod.rs 864-888 (payloads that are copies of the input are dropped) *)
Inductive cerror :=
| ENoUnit | ETextValue (t : str) | EMixed (from to : pq)
| EBestNotFound (p : pq) (s : option system) | EUnknownUnit (k : str).

Inductive result (A : Type) := Ok (a : A) | Err (e : cerror).
Arguments Ok {A} a.
Arguments Err {A} e.

Definition site_unit_index : N := 1%N.       (* all_units[id] *)
Definition site_assert_pq : N := 2%N.        (* convert_f64: assert_eq!(from.pq, to.pq) *)
Definition site_symbol : N := 3%N.           (* Unit::symbol: expect("symbol, name or alias in unit") *)
Definition site_unit_not_found : N := 4%N.   (* fractions_config: expect("unit not found") *)
Definition site_unreachable : N := 5%N.      (* fit_fraction: unreachable!() *)
Definition site_approx_assert : N := 6%N.    (* Number::new_approx asserts *)
Definition site_best_unwrap : N := 7%N.      (* BestConversions::new: units.next().unwrap() *)

(* ---------------------------------------------------------------- lookups *)

Fixpoint assoc_str {A} (k : str) (l : list (str * A)) : option A :=
  match l with
  | [] => None
  | (k', a) :: r => if str_eqb k k' then Some a else assoc_str k r
  end.

Fixpoint assoc_N {A} (k : N) (l : list (N * A)) : option A :=
  match l with
  | [] => None
  | (k', a) :: r => if (k =? k')%N then Some a else assoc_N k r
  end.

Fixpoint assoc_pq {A} (k : pq) (l : list (pq * A)) : option A :=
  match l with
  | [] => None
  | (k', a) :: r => if pq_eqb k k' then Some a else assoc_pq k r
  end.

(* UnitIndex::get_unit_id, mod.rs 246-254 *)
Definition get_unit_id (c : converter) (key : str) : option N := assoc_str key (unit_index c).

(* all_units[id] *)
Definition unit_at (c : converter) (id : N) : outcome uref :=
  match nth_error (all_units c) (N.to_nat id) with
  | Some u => Done (id, u)
  | None => Panic site_unit_index
  end.

(* Converter::find_unit, mod.rs 141-144 *)
Definition find_unit (c : converter) (key : str) : outcome (option uref) :=
  match get_unit_id c key with
  | None => Done None
  | Some id => obind (unit_at c id) (fun u => Done (Some u))
  end.

(* Unit::symbol, mod.rs 283-289 *)
Definition symbol (u : unit) : outcome str :=
  match u_symbols u with
  | s :: _ => Done s
  | [] => match u_names u with
          | s :: _ => Done s
          | [] => match u_aliases u with s :: _ => Done s | [] => Panic site_symbol end
          end
  end.

Definition oor {A} (a b : option A) : option A := match a with Some _ => a | None => b end.

(* Fractions::config, mod.rs 196-218 *)
Definition fr_config (f : fractions) (s : option system) (p : pq) (id : N) : frac_cfg :=
  let o := oor (oor (oor (assoc_N id (fr_unit f)) (assoc_pq p (fr_quantity f)))
                    (match s with
                     | Some Metric => fr_metric f
                     | Some Imperial => fr_imperial f
                     | None => None
                     end))
               (fr_all f) in
  match o with Some cfg => cfg | None => default_cfg end.

(* Converter::fractions_config, mod.rs 150-158 *)
Definition fractions_config (c : converter) (u : unit) : outcome frac_cfg :=
  obind (symbol u) (fun s =>
  match get_unit_id c s with
  | None => Panic site_unit_not_found
  | Some id => Done (fr_config (c_fractions c) (u_sys u) (u_pq u) id)
  end).

(* BestConversionsStore::conversions, mod.rs 316-326 *)
Definition conversions (b : best_store) (s : system) : best_convs :=
  match b with
  | Unified u => u
  | BySystem m i => match s with Metric => m | Imperial => i end
  end.

(* ---------------------------------------------------------------- conversion *)

(* the arithmetic of convert_f64, mod.rs 720-725 *)
Definition convert_q (v : Q) (from to : unit) : Q :=
  (v + u_diff from) * u_ratio from / u_ratio to - u_diff to.

(* free function convert_f64, mod.rs 720-725 *)
Definition convert_f64 (v : Q) (from to : unit) : outcome Q :=
  if pq_eqb (u_pq from) (u_pq to) then Done (convert_q v from to) else Panic site_assert_pq.

(* Converter::convert_f64, mod.rs 698-703 *)
Definition conv_f64 (v : Q) (from to : uref) : outcome Q :=
  if (fst from =? fst to)%N then Done v else convert_f64 v (snd from) (snd to).

(* Converter::convert_value, mod.rs 687-696 *)
Definition convert_value (v : cvalue) (from to : uref) : outcome cvalue :=
  match v with
  | CNum n => obind (conv_f64 n from to) (fun n' => Done (CNum n'))
  | CRange s e => obind (conv_f64 s from to) (fun s' =>
                  obind (conv_f64 e from to) (fun e' => Done (CRange s' e')))
  end.

Definition Qge_bool (a b : Q) : bool := Qle_bool b a.
Definition Qlt_bool (a b : Q) : bool := negb (Qle_bool b a).

(* BestConversions::best_unit, mod.rs 356-383 *)
Definition best_unit (c : converter) (convs : best_convs) (v : cvalue) (u : uref)
  : outcome (option uref) :=
  let value := Qabs (match v with CNum n => n | CRange s _ => s end) in
  match convs with
  | [] => Done None
  | (_, base_id) :: _ =>
      obind (unit_at c base_id) (fun base =>
      obind (conv_f64 value u base) (fun norm =>
      let best_id :=
        match find (fun tu => Qge_bool norm (fst tu - (1 # 1000))) (rev convs) with
        | Some (_, id) => id
        | None => base_id
        end in
      obind (unit_at c best_id) (fun b => Done (Some b))))
  end.

(* Converter::get_unit, mod.rs 705-717 *)
Definition get_unit (c : converter) (u : cunit) : outcome (result uref) :=
  match u with
  | CUnit r => Done (Ok r)
  | CKey k => match get_unit_id c k with
              | None => Done (Err (EUnknownUnit k))
              | Some id => obind (unit_at c id) (fun r => Done (Ok r))
              end
  end.

(* Converter::convert_to_unit, mod.rs 653-666 *)
Definition convert_to_unit (v : cvalue) (u t : uref) : outcome (result cvalue) :=
  if negb (pq_eqb (u_pq (snd u)) (u_pq (snd t))) then
    Done (Err (EMixed (u_pq (snd u)) (u_pq (snd t))))
  else obind (convert_value v u t) (fun v' => Done (Ok v')).

(* Converter::convert_to_best, mod.rs 668-685 *)
Definition convert_to_best (c : converter) (v : cvalue) (u : uref) (s : system)
  : outcome (result (cvalue * uref)) :=
  let convs := conversions (best c (u_pq (snd u))) s in
  obind (best_unit c convs v u) (fun ob =>
  match ob with
  | None => Done (Err (EBestNotFound (u_pq (snd u)) (u_sys (snd u))))
  | Some b => obind (convert_value v u b) (fun v' => Done (Ok (v', b)))
  end).

(* Converter::convert, mod.rs 628-651 *)
Definition conv_convert (c : converter) (v : cvalue) (u : cunit) (to : cto)
  : outcome (result (cvalue * uref)) :=
  obind (get_unit c u) (fun ru =>
  match ru with
  | Err e => Done (Err e)
  | Ok ur =>
      match to with
      | ToUnit t =>
          obind (get_unit c t) (fun rt =>
          match rt with
          | Err e => Done (Err e)
          | Ok tr => obind (convert_to_unit v ur tr) (fun rv =>
                     match rv with Err e => Done (Err e) | Ok v' => Done (Ok (v', tr)) end)
          end)
      | ToBest s => convert_to_best c v ur s
      | ToSame => convert_to_best c v ur
                    (match u_sys (snd ur) with Some s => s | None => default_system c end)
      end
  end).

(* ---------------------------------------------------------------- quantities *)

(* Quantity::unit_info, quantity.rs 173-175 *)
Definition unit_info (c : converter) (q : quantity) : outcome (option uref) :=
  match q_unit q with
  | None => Done None
  | Some k => find_unit c k
  end.

(* TryFrom<&Value> for ConvertValue, mod.rs 823-833 *)
Definition cvalue_of (v : value) : result cvalue :=
  match v with
  | VNumber n => Ok (CNum (num_value n))
  | VRange s e => Ok (CRange (num_value s) (num_value e))
  | VText t => Err (ETextValue t)
  end.

(* From<ConvertValue> for Value, mod.rs 811-821 *)
Definition value_of (v : cvalue) : value :=
  match v with
  | CNum n => VNumber (Regular n)
  | CRange s e => VRange (Regular s) (Regular e)
  end.

Section WithApprox.
  (* Number::new_approx (quantity.rs 735-780) applied to a configuration: the
     fraction approximation is the subject of C12 and a parameter here. *)
  Variable approx : Q -> frac_cfg -> outcome (option number).

  (* Number::try_approx, quantity.rs 782-790 *)
  Definition try_approx (n : number) (cfg : frac_cfg) : outcome (number * bool) :=
    obind (approx (num_value n) cfg) (fun o =>
    match o with Some f => Done (f, true) | None => Done (n, false) end).

  (* ScaledQuantity::try_fraction, mod.rs 604-626.  `self` after the call and the result. *)
  Definition try_fraction (c : converter) (q : quantity) : outcome (quantity * bool) :=
    obind (unit_info c q) (fun ou =>
    match ou with
    | None => Done (q, false)
    | Some u =>
        obind (fractions_config c (snd u)) (fun cfg =>
        if negb (fc_enabled cfg) then Done (q, false) else
        match q_value q with
        | VNumber n =>
            obind (try_approx n cfg) (fun r =>
            Done ({| q_value := VNumber (fst r); q_unit := q_unit q |}, snd r))
        | VRange s e =>
            obind (try_approx s cfg) (fun rs =>
            if snd rs then Done ({| q_value := VRange (fst rs) e; q_unit := q_unit q |}, true)
            else obind (try_approx e cfg) (fun re =>
                 Done ({| q_value := VRange (fst rs) (fst re); q_unit := q_unit q |}, snd re)))
        | VText _ => Done (q, false)
        end)
    end).

  (* the key of min_by in fit_fraction, mod.rs 567-577: (den, whole as f64, |err|) compared
     lexicographically; true iff key a > key b *)
  Definition fkey (n : number) : N * Q * Q :=
    match n with
    | Fraction w _ d e => (d, NQ w, Qabs e)
    | Regular w => (1%N, w, 0)
    end.
  Definition key_gt (a b : number) : bool :=
    let '(d1, w1, e1) := fkey a in
    let '(d2, w2, e2) := fkey b in
    if (d1 =? d2)%N then
      if Qeq_bool w1 w2 then Qlt_bool e2 e1 else Qlt_bool w2 w1
    else (d2 <? d1)%N.

  (* Iterator::min_by: the first of the minimal elements *)
  Definition min_cand (l : list (number * uref)) : option (number * uref) :=
    match l with
    | [] => None
    | x :: r => Some (fold_left (fun acc y => if key_gt (fst acc) (fst y) then y else acc) r x)
    end.

  (* the filter_map of fit_fraction, mod.rs 549-565 *)
  Fixpoint candidates (c : converter) (value : Q) (u : uref) (convs : best_convs)
    : outcome (list (number * uref)) :=
    match convs with
    | [] => Done []
    | (_, id) :: r =>
        obind (unit_at c id) (fun nu =>
        let cfg := fr_config (c_fractions c) (u_sys (snd nu)) (u_pq (snd nu)) id in
        if negb (fc_enabled cfg) then candidates c value u r else
        obind (conv_f64 value u nu) (fun nv =>
        obind (approx nv cfg) (fun o =>
        obind (candidates c value u r) (fun rest =>
        match o with Some n => Done ((n, nu) :: rest) | None => Done rest end))))
    end.

  (* ScaledQuantity::fit_fraction, mod.rs 531-601 *)
  Definition fit_fraction (c : converter) (q : quantity) (u : uref) (target : option system)
    : outcome (quantity * result bool) :=
    match target with
    | None => obind (try_fraction c q) (fun r => Done (fst r, Ok (snd r)))
    | Some sys =>
        match q_value q with
        | VText t => Done (q, Err (ETextValue t))
        | VNumber _ | VRange _ _ =>
            let value := match q_value q with
                         | VNumber n => num_value n
                         | VRange s _ => num_value s
                         | VText _ => 0
                         end in
            obind (candidates c value u (conversions (best c (u_pq (snd u))) sys)) (fun cands =>
            match min_cand cands with
            | None => Done (q, Ok false)
            | Some (nv, nu) =>
                obind (match q_value q with
                       | VNumber _ => Done (VNumber nv)
                       | VRange _ e =>
                           obind (conv_f64 (num_value e) u nu) (fun e' =>
                           obind (fractions_config c (snd nu)) (fun cfg =>
                           obind (approx e' cfg) (fun o =>
                           Done (VRange nv (match o with Some f => f | None => Regular e' end)))))
                       | VText _ => Panic site_unreachable
                       end) (fun v' =>
                obind (symbol (snd nu)) (fun s =>
                Done ({| q_value := v'; q_unit := Some s |}, Ok true)))
            end)
        end
    end.

  (* ScaledQuantity::convert_impl, mod.rs 455-499.  `self` after the call and the result. *)
  Definition convert_impl (c : converter) (q : quantity) (to : cto)
    : outcome (quantity * result Datatypes.unit) :=
    match q_unit q with
    | None => Done (q, Err ENoUnit)
    | Some k =>
        obind (unit_info c q) (fun ou =>
        match ou with
        | None => Done (q, Err (EUnknownUnit k))
        | Some u =>
            let original_system := u_sys (snd u) in
            match cvalue_of (q_value q) with
            | Err e => Done (q, Err e)
            | Ok v =>
                obind (conv_convert c v (CUnit u) to) (fun r =>
                match r with
                | Err e => Done (q, Err e)
                | Ok (nv, nu) =>
                    obind (symbol (snd nu)) (fun s =>
                    let q1 := {| q_value := value_of nv; q_unit := Some s |} in
                    match to with
                    | ToUnit _ => obind (try_fraction c q1) (fun r => Done (fst r, Ok tt))
                    | ToBest ts =>
                        obind (fit_fraction c q1 nu (Some ts)) (fun r =>
                        match snd r with Err e => Done (fst r, Err e) | Ok _ => Done (fst r, Ok tt) end)
                    | ToSame =>
                        obind (fit_fraction c q1 nu original_system) (fun r =>
                        match snd r with Err e => Done (fst r, Err e) | Ok _ => Done (fst r, Ok tt) end)
                    end)
                end)
            end
        end)
    end.

  (* ScaledQuantity::fit, mod.rs 505-522 *)
  Definition fit (c : converter) (q : quantity) : outcome (quantity * result Datatypes.unit) :=
    obind (unit_info c q) (fun ou =>
    match ou with
    | None => Done (q, Ok tt)
    | Some u =>
        obind (fractions_config c (snd u)) (fun cfg =>
        if fc_enabled cfg then
          obind (fit_fraction c q u (u_sys (snd u))) (fun r =>
          match snd r with
          | Err e => Done (fst r, Err e)
          | Ok true => Done (fst r, Ok tt)
          | Ok false => convert_impl c (fst r) ToSame
          end)
        else convert_impl c q ToSame)
    end).
End WithApprox.

(* ---------------------------------------------------------------- amounts (specification side) *)

(* the amount of v [u] in the base unit of u's physical quantity *)
Definition to_base (u : unit) (v : Q) : Q := (v + u_diff u) * u_ratio u.

(* ---------------------------------------------------------------- the units file and the builder *)

(* units_file.rs 286-299, 262-284, 249-260, 156-183, 100-110, 10-20 *)
Record unit_entry := {
  e_names : list str; e_symbols : list str; e_aliases : list str;
  e_ratio : Q; e_diff : Q; e_expand_si : bool }.
Inductive units_group :=
| UUnified (l : list unit_entry)
| UBySystem (metric imperial unspecified : list unit_entry).
Inductive best_units := BUnified (l : list str) | BBySystem (metric imperial : list str).
Record qgroup := { g_pq : pq; g_best : option best_units; g_units : option units_group }.
Record fcfg_helper := {
  h_enabled : option bool; h_accuracy : option Q; h_max_den : option N; h_max_whole : option N }.
Record file_fractions := {
  ff_all : option fcfg_helper; ff_metric : option fcfg_helper; ff_imperial : option fcfg_helper;
  ff_quantity : list (pq * fcfg_helper); ff_unit : list (str * fcfg_helper) }.
Record units_file := {
  f_default_system : option system;
  f_prefixes : option (list (list str));          (* Kilo Hecto Deca Deci Centi Milli *)
  f_symbol_prefixes : option (list (list str));
  f_fractions : option file_fractions;
  f_quantity : list qgroup }.

(* FractionsConfigHelper::merge / define, units_file.rs 146-169 *)
Definition h_merge (a b : fcfg_helper) : fcfg_helper :=
  {| h_enabled := oor (h_enabled a) (h_enabled b); h_accuracy := oor (h_accuracy a) (h_accuracy b);
     h_max_den := oor (h_max_den a) (h_max_den b); h_max_whole := oor (h_max_whole a) (h_max_whole b) |}.
Definition odef {A} (o : option A) (d : A) : A := match o with Some a => a | None => d end.
Definition Qclamp01 (a : Q) : Q := if Qlt_bool a 0 then 0 else if Qlt_bool 1 a then 1 else a.
Definition h_define (h : fcfg_helper) : frac_cfg :=
  {| fc_enabled := odef (h_enabled h) (fc_enabled default_cfg);
     fc_accuracy := Qclamp01 (odef (h_accuracy h) (fc_accuracy default_cfg));
     fc_max_den := N.min 16 (N.max 1 (odef (h_max_den h) (fc_max_den default_cfg)));
     fc_max_whole := odef (h_max_whole h) (fc_max_whole default_cfg) |}.

Definition mk_unit (p : pq) (s : option system) (e : unit_entry) : unit * bool :=
  ({| u_names := e_names e; u_symbols := e_symbols e; u_aliases := e_aliases e;
      u_ratio := e_ratio e; u_diff := e_diff e; u_pq := p; u_sys := s |}, e_expand_si e).

(* add_units_file, builder.rs 83-121: the units of a group in insertion order *)
Definition group_units (g : qgroup) : list (unit * bool) :=
  match g_units g with
  | None => []
  | Some (UUnified l) => map (mk_unit (g_pq g) None) l
  | Some (UBySystem m i u) =>
      map (mk_unit (g_pq g) (Some Metric)) m ++ map (mk_unit (g_pq g) (Some Imperial)) i
      ++ map (mk_unit (g_pq g) None) u
  end.

(* expand_si, builder.rs 457-497: one unit per prefix, in enum order *)
Definition prefixed (ps : list str) (xs : list str) : list str :=
  flat_map (fun p => map (fun x => p ++ x) xs) ps.
Fixpoint expand_si (u : unit) (pre spre : list (list str)) (ratios : list Q) : list unit :=
  match pre, spre, ratios with
  | p :: pre', sp :: spre', r :: ratios' =>
      {| u_names := prefixed p (u_names u); u_symbols := prefixed sp (u_symbols u); u_aliases := [];
         u_ratio := u_ratio u * r; u_diff := u_diff u; u_pq := u_pq u; u_sys := u_sys u |}
      :: expand_si u pre' spre' ratios'
  | _, _, _ => []
  end.

(* Unit::all_keys, mod.rs 279-281 *)
Definition all_keys (u : unit) : list str := u_names u ++ u_symbols u ++ u_aliases u.

(* UnitIndex::add_unit for every unit in order, builder.rs 512-534; None = builder error *)
Definition str_blank (s : str) : bool := forallb uni_ws s.
Fixpoint index_add (idx : list (str * N)) (keys : list str) (id : N) : option (list (str * N)) :=
  match keys with
  | [] => Some idx
  | k :: r =>
      if str_blank k then None else
      match assoc_str k idx with
      | Some _ => None
      | None => index_add (idx ++ [(k, id)]) r id
      end
  end.
Fixpoint index_all (idx : list (str * N)) (us : list unit) (id : N) : option (list (str * N)) :=
  match us with
  | [] => Some idx
  | u :: r =>
      match all_keys u with
      | [] => None
      | ks => match index_add idx ks id with
              | None => None
              | Some idx' => index_all idx' r (id + 1)%N
              end
      end
  end.

(* stable insertion sort by ratio (slice::sort_by is stable), builder.rs 251-257 *)
Fixpoint insert_by_ratio (us : list unit) (id : N) (l : list N) : list N :=
  match l with
  | [] => [id]
  | x :: r =>
      let rx := match nth_error us (N.to_nat x) with Some u => u_ratio u | None => 0 end in
      let ri := match nth_error us (N.to_nat id) with Some u => u_ratio u | None => 0 end in
      if Qlt_bool ri rx then id :: l else x :: insert_by_ratio us id r
  end.
Definition sort_by_ratio (us : list unit) (l : list N) : list N :=
  fold_left (fun acc id => insert_by_ratio us id acc) l [].

Fixpoint omap {A B} (f : A -> option B) (l : list A) : option (list B) :=
  match l with
  | [] => Some []
  | a :: r => match f a, omap f r with Some b, Some r' => Some (b :: r') | _, _ => None end
  end.

(* BestConversions::new, builder.rs 241-275; None = builder error (unknown unit) *)
Fixpoint thresholds (us : list unit) (bu : unit) (l : list N) : outcome best_convs :=
  match l with
  | [] => Done []
  | id :: r =>
      match nth_error us (N.to_nat id) with
      | None => Panic site_unit_index
      | Some u =>
          obind (convert_f64 1 u bu) (fun th =>
          obind (thresholds us bu r) (fun t => Done ((th, id) :: t)))
      end
  end.
Definition best_new (us : list unit) (idx : list (str * N)) (names : list str)
  : outcome (option best_convs) :=
  match omap (fun n => assoc_str n idx) names with
  | None => Done None
  | Some ids =>
      match sort_by_ratio us ids with
      | [] => Panic site_best_unwrap
      | base :: rest =>
          match nth_error us (N.to_nat base) with
          | None => Panic site_unit_index
          | Some bu => obind (thresholds us bu rest) (fun t => Done (Some ((1, base) :: t)))
          end
      end
  end.

(* BestConversionsStore::new, builder.rs 222-238 *)
Definition store_new (us : list unit) (idx : list (str * N)) (b : best_units)
  : outcome (option best_store) :=
  match b with
  | BUnified n => obind (best_new us idx n) (fun o =>
                  Done (match o with Some l => Some (Unified l) | None => None end))
  | BBySystem m i =>
      obind (best_new us idx m) (fun om =>
      obind (best_new us idx i) (fun oi =>
      Done (match om, oi with Some a, Some b => Some (BySystem a b) | _, _ => None end)))
  end.

(* build_fractions_config for one file, builder.rs 365-419.
   `a.merge(b)` keeps a's fields first, so folding the inherit list left to right equals
   `cfg.merge(reduce(merge, inherit))` (merge is associative: the first Some wins). *)
Definition h_of (o : option fcfg_helper) : option frac_cfg :=
  match o with Some h => Some (h_define h) | None => None end.
Definition unit_frac (us : list unit) (idx : list (str * N)) (ff : file_fractions)
           (kv : str * fcfg_helper) : option (N * frac_cfg) :=
  match assoc_str (fst kv) idx with
  | None => None
  | Some id =>
      match nth_error us (N.to_nat id) with
      | None => None
      | Some u =>
          let inh := [assoc_pq (u_pq u) (ff_quantity ff);
                      match u_sys u with
                      | Some Metric => ff_metric ff
                      | Some Imperial => ff_imperial ff
                      | None => None
                      end;
                      ff_all ff] in
          let cfg := fold_left (fun acc o => match o with Some h => h_merge acc h | None => acc end)
                               inh (snd kv) in
          Some (id, h_define cfg)
      end
  end.
Definition build_fractions (us : list unit) (idx : list (str * N)) (of : option file_fractions)
  : option fractions :=
  match of with
  | None => Some {| fr_all := None; fr_metric := None; fr_imperial := None;
                    fr_quantity := []; fr_unit := [] |}
  | Some ff =>
      match omap (unit_frac us idx ff) (ff_unit ff) with
      | None => None
      | Some ul =>
          Some {| fr_all := h_of (ff_all ff); fr_metric := h_of (ff_metric ff);
                  fr_imperial := h_of (ff_imperial ff);
                  fr_quantity := map (fun kv => (fst kv, h_define (snd kv))) (ff_quantity ff);
                  fr_unit := ul |}
      end
  end.

Definition best_of_groups (gs : list qgroup) (p : pq) : option best_units :=
  fold_left (fun acc g => if pq_eqb (g_pq g) p then oor (g_best g) acc else acc) gs None.

Definition empty_best (b : best_units) : bool :=
  match b with
  | BUnified [] | BBySystem [] _ | BBySystem _ [] => true
  | _ => false
  end.

Definition expand_all (f : units_file) (ratios : list Q) (base : list (unit * bool))
  : option (list unit) :=
  if existsb snd base then
    match f_prefixes f, f_symbol_prefixes f with
    | Some p, Some sp =>
        Some (flat_map (fun ub : unit * bool => if snd ub then expand_si (fst ub) p sp ratios else []) base)
    | _, _ => None
    end
  else Some [].

(* ConverterBuilder::new().with_units_file(f).finish(), builder.rs 73-219, for a file without
   [extend]; None = any ConverterBuilderError *)
Definition build_file (f : units_file) (ratios : list Q) : outcome (option converter) :=
  let base := flat_map group_units (f_quantity f) in
  if existsb (fun g => match g_best g with Some b => empty_best b | None => false end) (f_quantity f)
  then Done None else
  match expand_all f ratios base with
  | None => Done None
  | Some expanded =>
      let us := map fst base ++ expanded in
      match index_all [] us 0 with
      | None => Done None
      | Some idx =>
          let bo := fun p => best_of_groups (f_quantity f) p in
          match bo Volume, bo Mass, bo Length, bo Temperature, bo Time with
          | Some bv, Some bm, Some bl, Some bt, Some bti =>
              obind (store_new us idx bv) (fun sv =>
              obind (store_new us idx bm) (fun sm =>
              obind (store_new us idx bl) (fun sl =>
              obind (store_new us idx bt) (fun st =>
              obind (store_new us idx bti) (fun sti =>
              match sv, sm, sl, st, sti, build_fractions us idx (f_fractions f) with
              | Some sv, Some sm, Some sl, Some st, Some sti, Some fr =>
                  Done (Some {| all_units := us; unit_index := idx;
                                best := fun p => match p with
                                                 | Volume => sv | Mass => sm | Length => sl
                                                 | Temperature => st | Time => sti
                                                 end;
                                c_fractions := fr;
                                default_system := odef (f_default_system f) Metric |})
              | _, _, _, _, _, _ => Done None
              end)))))
          | _, _, _, _, _ => Done None
          end
      end
  end.

(* ---------------------------------------------------------------- Number::new_approx *)
(* quantity.rs 637-706 and 735-780, used to instantiate [approx] in the extracted runner
   (the theorems of C09 do not depend on it; its properties are C12's subject). *)

Definition Qtrunc (q : Q) : Z := Z.quot (Qnum q) (Zpos (Qden q)).
(* f64::round: half away from zero *)
Definition Qround_away (q : Q) : Z :=
  let t := Qtrunc q in
  let r := Qabs (q - inject_Z t) in
  if Qle_bool (1 # 2) r then (if Qle_bool 0 q then t + 1 else t - 1)%Z else t.
(* `as u32` of a float: saturating *)
Definition sat_u32 (z : Z) : N := if (z <? 0)%Z then 0%N else N.min (Z.to_N z) u32_max.

Definition denoms : list N := [2; 3; 4; 8; 10; 16]%N.
Definition fixed_of (q : Q) : Z := Qtrunc (q * 10000).
Definition tbl_entry := (Z * (N * N))%type.

Fixpoint tbl_insert (e : tbl_entry) (t : list tbl_entry) : list tbl_entry :=
  match t with
  | [] => [e]
  | x :: r => if (fst e =? fst x)%Z then t
              else if (fst e <? fst x)%Z then e :: t else x :: tbl_insert e r
  end.

(* FractionLookupTable::new, quantity.rs 643-673 *)
Definition frac_table : list tbl_entry :=
  fold_left (fun t den =>
    fold_left (fun t k =>
      let num := N.of_nat k in
      tbl_insert (fixed_of (NQ num / NQ den), (num, den)) t)
      (seq 1 (N.to_nat den - 1)) t) denoms [].

(* FractionLookupTable::lookup, quantity.rs 675-705 *)
Definition tbl_lookup (val : Q) (max_den : N) : option (N * N) :=
  let fixed := fixed_of val in
  let okd := fun e : tbl_entry => (snd (snd e) <=? max_den)%N in
  let found := match find (fun e : tbl_entry => (fst e =? fixed)%Z) frac_table with
               | Some e => if okd e then Some (snd e) else None
               | None => None
               end in
  match found with
  | Some f => Some f
  | None =>
      let lows := filter (fun e : tbl_entry => (fst e <? fixed)%Z) frac_table in
      let highs := filter (fun e : tbl_entry => negb (fst e <? fixed)%Z) frac_table in
      match find okd (rev lows), find okd highs with
      | None, Some (_, f) => Some f
      | Some (_, f), None => Some f
      | Some (av, a), Some (bv, b) =>
          let ae := Z.abs (av - fixed) in
          let be := Z.abs (bv - fixed) in
          if (ae <? be)%Z || ((ae =? be)%Z && (snd a <=? snd b)%N) then Some a else Some b
      | None, None => None
      end
  end.

(* Number::new_approx, quantity.rs 735-780 (`!value.is_finite()` cannot arise on Q) *)
Definition new_approx (value : Q) (cfg : frac_cfg) : outcome (option number) :=
  let accuracy := fc_accuracy cfg in
  let max_den := fc_max_den cfg in
  let max_whole := fc_max_whole cfg in
  if negb (Qle_bool 0 accuracy && Qle_bool accuracy 1) then Panic site_approx_assert else
  if (64 <? max_den)%N then Panic site_approx_assert else
  if Qle_bool value 0 then Done None else
  let max_err := accuracy * value in
  let t := Qtrunc value in
  let whole := sat_u32 t in
  let decimal := value - inject_Z t in
  if (max_whole <? whole)%N || (whole =? u32_max)%N then Done None else
  if Qlt_bool decimal (1 # 10000000000) then Done (Some (Regular value)) else
  let r := Qround_away value in
  let rounded := sat_u32 r in
  let round_err := value - inject_Z r in
  if Qlt_bool (Qabs round_err) max_err && (0 <? rounded)%N && (rounded <=? max_whole)%N then
    Done (Some (Fraction rounded 0 1 round_err))
  else
    match tbl_lookup decimal max_den with
    | None => Done None
    | Some (num, den) =>
        let approx_value := NQ whole + NQ num / NQ den in
        let err := value - approx_value in
        if Qlt_bool max_err (Qabs err) then Done None
        else Done (Some (Fraction whole num den err))
    end.
