(* Hand-written table of the real-world definitions of the bundled units, independent of
   /repo/units.toml: (first name, physical quantity, ratio to the base unit, offset).
   Base units: litre, gram, metre, second, kelvin.  Sources: international yard and pound
   agreement (1959): 1 ft = 0.3048 m, 1 in = 0.0254 m, 1 lb = 0.45359237 kg, 1 oz = lb/16;
   US customary liquid measures: 1 gal = 231 in^3 = 3.785411784 l, quart = gal/4,
   pint = gal/8, cup = gal/16, fl oz = gal/128, tbsp = gal/256, tsp = gal/768;
   0 degC = 273.15 K, degF = (K * 9/5) - 459.67; SI prefixes. *)
From Coq Require Import String Ascii.
From CL Require Import Model.Convert.
Open Scope Q_scope.

Definition s (x : string) : str := List.map N_of_ascii (list_ascii_of_string x).

Definition us_gallon : Q := 3785411784 # 1000000000.
Definition pound : Q := 45359237 # 100000.

Definition si (base : string) (p : pq) : list (str * pq * Q * Q) :=
  [ (s base, p, 1, 0);
    (s ("kilo" ++ base), p, 1000, 0); (s ("hecto" ++ base), p, 100, 0);
    (s ("deca" ++ base), p, 10, 0); (s ("deci" ++ base), p, 1 # 10, 0);
    (s ("centi" ++ base), p, 1 # 100, 0); (s ("milli" ++ base), p, 1 # 1000, 0) ].

Definition standards : list (str * pq * Q * Q) :=
  si "liter" Volume ++ si "meter" Length ++ si "gram" Mass ++
  [ (s "teaspoon", Volume, us_gallon / 768, 0);
    (s "tablespoon", Volume, us_gallon / 256, 0);
    (s "fluid ounce", Volume, us_gallon / 128, 0);
    (s "cup", Volume, us_gallon / 16, 0);
    (s "pint", Volume, us_gallon / 8, 0);
    (s "quart", Volume, us_gallon / 4, 0);
    (s "gallon", Volume, us_gallon, 0);
    (s "foot", Length, 3048 # 10000, 0);
    (s "inch", Length, 254 # 10000, 0);
    (s "ounce", Mass, pound / 16, 0);
    (s "pound", Mass, pound, 0);
    (s "second", Time, 1, 0);
    (s "minute", Time, 60, 0);
    (s "hour", Time, 3600, 0);
    (s "day", Time, 86400, 0);
    (s "celsius", Temperature, 1, 27315 # 100);
    (s "fahrenheit", Temperature, 5 # 9, 45967 # 100) ].

Fixpoint std_lookup (name : str) (l : list (str * pq * Q * Q)) : option (pq * Q * Q) :=
  match l with
  | [] => None
  | (n, p, r, d) :: t => if str_eqb name n then Some (p, r, d) else std_lookup name t
  end.

Definition rel_tol : Q := 1 # 1000000.

(* |x - y| <= rel_tol * |y| *)
Definition within (x y : Q) : bool := Qle_bool (Qabs (x - y)) (rel_tol * Qabs y).

(* the unit is filed under the right physical quantity and its ratio and offset are
   within relative 1e-6 of the real-world definition *)
Definition within_tol (u : unit) : bool :=
  match u_names u with
  | [] => false
  | n :: _ =>
      match std_lookup n standards with
      | None => false
      | Some (p, r, d) => pq_eqb (u_pq u) p && within (u_ratio u) r && within (u_diff u) d
      end
  end.
