(* Model of the analysis pass: /repo/src/analysis/event_consumer.rs as of the repair
   c9128f1 (RecipeCollector, parse_events 116-233 with the empty-block test 168-182,
   metadata 340-391, in_step 501-560, in_text 562-585, ingredient 587-779,
   resolve_intermediate_ref 781-901, cookware 903-981, timer 983-1028,
   quantity/value 1030-1070, resolve_reference 1072-1228,
   set_referenced_from 1278-1286/1325-1333, parse_reference 1509-1521) over the event
   stream of Model/Events.v, producing the recipe structure of /repo/src/model.rs.
   The [site_*] constants below are stable names of panic sites (the line of the
   statement before c9128f1, which moved everything after line 165 down by 11).

   Kept: everything that decides the *structure* of the recipe (sections, content,
   items, component tables, relations, modifiers, step numbers), the value of every
   quantity of an ingredient, a cookware item or a timer ([qi_value]; the quantities
   of `inline_quantities` are made by find_inline_quantity, an oracle here, and only
   counted: [r_inline]), whether analysis
   reported an error (PassResult::is_valid), and whether there is an output at
   all (a parser Error event: 200-212).  Dropped: the metadata map and every
   warning (they influence neither); diagnostics are reduced to the one bit
   "an error was reported".

   External code is an oracle (Section variables, answers shipped with each case):
     ci_key      unicase::UniCase equality is equality of [ci_key] (a folded key)
     yaml_ok     serde_yaml::from_str::<Mapping> succeeds on the front matter
     find_iq     find_inline_quantity(text, converter) = Some (before, _, after)
     unit_class  converter.find_unit(u): 0 unknown, 1 a time unit, 2 another unit
   [input] is the source text (in_text slices it), [x] the extensions the pass
   looks at, [cfg] selects the behaviour before ([cfg0]) / after ([cfgF]) the repair
   c9128f1 of DESIGN.md section 7 rows 2 and 3 (empty step / empty text content are
   no longer pushed nor counted: [skipped], [finish_block]) and before ([cfg0], [cfgT]) /
   after ([cfgF]) the repair 200c896 (in text mode the source of a component is pushed
   without its comments: [comp_src], [strip_comments]). *)
From Coq Require Import ZArith.
From CL Require Export Model.Events.
From CL Require Model.CommentMask.
Open Scope N_scope.

(* ---- sites of panics ---- *)
Definition site_end_without_start : N := 165.   (* panic!("End event without Start") *)
Definition site_end_kind_step : N := 153.       (* assert_eq!(kind, BlockKind::Step) *)
Definition site_end_kind_text : N := 160.       (* assert!(kind == Text || define_mode == Text) *)
Definition site_content_outside_block : N := 186.
Definition site_nontext_in_text : N := 555.     (* assert_eq!(define_mode, Text) in in_text *)
Definition site_in_text_slice : N := 570.       (* self.input[span.range()] *)
Definition site_inter_without_ref : N := 601.   (* assert!(modifiers.contains(REF)) *)
Definition site_inter_negative : N := 776.      (* assert!(!val.is_negative()) *)
Definition site_index_definition : N := 624.    (* ingredients[references_to] / cookware[..] 911 *)
Definition site_assert_is_definition : N := 626. (* assert!(is_definition) 626/913, = "Reference to reference" 1273/1320 *)
Definition site_units_index : N := 633.         (* ingredients[index] for index in referenced_from *)
Definition site_assert_target_not_ref : N := 1163.
Definition site_step_counter_overflow : N := 173. (* u32 += 1, debug build *)
Definition site_iq_fuel : N := 509.             (* model only: the find_iq oracle did not shrink the text *)

(* ---- the recipe structure (src/model.rs) ---- *)
Inductive item :=
| IText (s : str) | IIngredient (i : nat) | ICookware (i : nat) | ITimer (i : nat) | IInline (i : nat).

Record rstep := { st_items : list item; st_number : nat }.
Inductive content := CStep (s : rstep) | CText (t : str).
Record section := { sec_name : option str; sec_content : list content }.

(* IngredientReferenceTarget; cookware relations (ComponentRelation) use TgComponent *)
Inductive rtarget := TgComponent | TgStep | TgSection.
Inductive relation :=
| RDef (referenced_from : list nat) (defined_in_step : bool)
| RRef (references_to : nat) (tg : rtarget).

(* what the structure keeps of a quantity: Quantity<ScalableValue> { value, unit } (src/quantity.rs).
   [qi_value] is the Value inside ScalableValue::Fixed / ::Linear, exactly the event's value
   (`value.into_inner()`, event_consumer.rs 1063 and 1083: nothing is computed on it; a number is
   Number::value() as in Model/Events.v); [qi_fixed] says which of the two wrappers it is;
   [qi_text] = the value is Value::Text (kept beside the value: the checks of the pass ask for it). *)
Record qinfo := { qi_text : bool; qi_fixed : bool; qi_unit : option str; qi_value : pvalue }.

(* Ingredient<ScalableValue> and Cookware<ScalableValue> *)
Record component := {
  c_name : str; c_alias : option str; c_qty : option qinfo; c_note : option str;
  c_rref : bool;                 (* Ingredient::reference (a recipe path) is Some *)
  c_mods : modifiers; c_rel : relation }.

Record rtimer := { tm_name : option str; tm_qty : option qinfo }.

Record recipe := {
  r_sections : list section; r_ingredients : list component; r_cookware : list component;
  r_timers : list rtimer; r_inline : nat (* inline_quantities.len() *) }.

Definition is_step (c : content) : bool := match c with CStep _ => true | CText _ => false end.
Definition is_text (c : content) : bool := negb (is_step c).
Definition is_definition (r : relation) : bool := match r with RDef _ _ => true | RRef _ _ => false end.

(* Section::is_empty *)
Definition section_is_empty (s : section) : bool :=
  match sec_name s, sec_content s with None, [] => true | _, _ => false end.

(* ---- collector state ---- *)
Inductive define_mode := DMAll | DMComponents | DMSteps | DMText.
Inductive duplicate_mode := DupNew | DupReference.
Definition dm_eqb (a b : define_mode) : bool :=
  match a, b with DMAll, DMAll | DMComponents, DMComponents | DMSteps, DMSteps | DMText, DMText => true
  | _, _ => false end.
Definition dup_is_ref (d : duplicate_mode) : bool := match d with DupReference => true | DupNew => false end.

Inductive blockbuf := BStep (items : list item) | BText (t : str).

Record astate := {
  a_sections : list section;        (* content.sections *)
  a_cur : section;                  (* current_section *)
  a_ingredients : list component; a_cookware : list component; a_timers : list rtimer;
  a_inline : nat;
  a_define : define_mode; a_duplicate : duplicate_mode;
  a_block : option blockbuf;        (* current_block *)
  a_counter : nat;                  (* step_counter *)
  a_errors : bool;                  (* ctx has an error *)
  a_halted : bool }.                (* a parser error was seen: no output *)

Definition init : astate :=
  {| a_sections := []; a_cur := {| sec_name := None; sec_content := [] |};
     a_ingredients := []; a_cookware := []; a_timers := []; a_inline := O;
     a_define := DMAll; a_duplicate := DupNew; a_block := None; a_counter := 1%nat;
     a_errors := false; a_halted := false |}.

Definition set_block (s : astate) (b : option blockbuf) : astate :=
  {| a_sections := a_sections s; a_cur := a_cur s; a_ingredients := a_ingredients s;
     a_cookware := a_cookware s; a_timers := a_timers s; a_inline := a_inline s;
     a_define := a_define s; a_duplicate := a_duplicate s; a_block := b;
     a_counter := a_counter s; a_errors := a_errors s; a_halted := a_halted s |}.

Definition add_error (s : astate) (e : bool) : astate :=
  {| a_sections := a_sections s; a_cur := a_cur s; a_ingredients := a_ingredients s;
     a_cookware := a_cookware s; a_timers := a_timers s; a_inline := a_inline s;
     a_define := a_define s; a_duplicate := a_duplicate s; a_block := a_block s;
     a_counter := a_counter s; a_errors := a_errors s || e; a_halted := a_halted s |}.

Definition set_modes (s : astate) (d : define_mode) (u : duplicate_mode) : astate :=
  {| a_sections := a_sections s; a_cur := a_cur s; a_ingredients := a_ingredients s;
     a_cookware := a_cookware s; a_timers := a_timers s; a_inline := a_inline s;
     a_define := d; a_duplicate := u; a_block := a_block s;
     a_counter := a_counter s; a_errors := a_errors s; a_halted := a_halted s |}.

Definition set_halted (s : astate) : astate :=
  {| a_sections := a_sections s; a_cur := a_cur s; a_ingredients := a_ingredients s;
     a_cookware := a_cookware s; a_timers := a_timers s; a_inline := a_inline s;
     a_define := a_define s; a_duplicate := a_duplicate s; a_block := a_block s;
     a_counter := a_counter s; a_errors := a_errors s; a_halted := true |}.

Definition set_sections (s : astate) (secs : list section) (cur : section) (counter : nat) : astate :=
  {| a_sections := secs; a_cur := cur; a_ingredients := a_ingredients s;
     a_cookware := a_cookware s; a_timers := a_timers s; a_inline := a_inline s;
     a_define := a_define s; a_duplicate := a_duplicate s; a_block := a_block s;
     a_counter := counter; a_errors := a_errors s; a_halted := a_halted s |}.

Definition set_ingredients (s : astate) (t : list component) : astate :=
  {| a_sections := a_sections s; a_cur := a_cur s; a_ingredients := t;
     a_cookware := a_cookware s; a_timers := a_timers s; a_inline := a_inline s;
     a_define := a_define s; a_duplicate := a_duplicate s; a_block := a_block s;
     a_counter := a_counter s; a_errors := a_errors s; a_halted := a_halted s |}.

Definition set_cookware (s : astate) (t : list component) : astate :=
  {| a_sections := a_sections s; a_cur := a_cur s; a_ingredients := a_ingredients s;
     a_cookware := t; a_timers := a_timers s; a_inline := a_inline s;
     a_define := a_define s; a_duplicate := a_duplicate s; a_block := a_block s;
     a_counter := a_counter s; a_errors := a_errors s; a_halted := a_halted s |}.

Definition set_timers (s : astate) (t : list rtimer) : astate :=
  {| a_sections := a_sections s; a_cur := a_cur s; a_ingredients := a_ingredients s;
     a_cookware := a_cookware s; a_timers := t; a_inline := a_inline s;
     a_define := a_define s; a_duplicate := a_duplicate s; a_block := a_block s;
     a_counter := a_counter s; a_errors := a_errors s; a_halted := a_halted s |}.

Definition set_inline (s : astate) (n : nat) : astate :=
  {| a_sections := a_sections s; a_cur := a_cur s; a_ingredients := a_ingredients s;
     a_cookware := a_cookware s; a_timers := a_timers s; a_inline := n;
     a_define := a_define s; a_duplicate := a_duplicate s; a_block := a_block s;
     a_counter := a_counter s; a_errors := a_errors s; a_halted := a_halted s |}.

Definition set_rel (c : component) (r : relation) : component :=
  {| c_name := c_name c; c_alias := c_alias c; c_qty := c_qty c; c_note := c_note c;
     c_rref := c_rref c; c_mods := c_mods c; c_rel := r |}.

Definition set_mods_rel (c : component) (m : modifiers) (r : relation) : component :=
  {| c_name := c_name c; c_alias := c_alias c; c_qty := c_qty c; c_note := c_note c;
     c_rref := c_rref c; c_mods := m; c_rel := r |}.

(* ---- small list helpers ---- *)
Fixpoint upd_nth {A} (l : list A) (n : nat) (x : A) : list A :=
  match l, n with
  | [], _ => []
  | _ :: r, O => x :: r
  | a :: r, S m => a :: upd_nth r m x
  end.

(* Iterator::rposition *)
Fixpoint rposition {A} (p : A -> bool) (l : list A) : option nat :=
  match l with
  | [] => None
  | a :: r =>
      match rposition p r with
      | Some i => Some (S i)
      | None => if p a then Some O else None
      end
  end.

(* content.iter().enumerate().filter_map(|(i, c)| c.is_step().then_some(i)) *)
Fixpoint step_indices_from (i : nat) (l : list content) : list nat :=
  match l with
  | [] => []
  | c :: r => (if is_step c then [i] else []) ++ step_indices_from (S i) r
  end.
Definition step_indices (l : list content) : list nat := step_indices_from O l.

(* byte-offset slicing of a str: &s[a..b]; None = the slice panics *)
Fixpoint bdrop (s : str) (n : N) : option str :=
  if n =? 0 then Some s
  else match s with
       | [] => None
       | c :: r => if utf8_len c <=? n then bdrop r (n - utf8_len c) else None
       end.
Fixpoint btake (s : str) (n : N) : option str :=
  if n =? 0 then Some []
  else match s with
       | [] => None
       | c :: r => if utf8_len c <=? n
                   then match btake r (n - utf8_len c) with Some t => Some (c :: t) | None => None end
                   else None
       end.
Definition byte_slice (s : str) (sp : span) : option str :=
  let (a, b) := sp in
  if a <=? b then match bdrop s a with Some r => btake r (b - a) | None => None end else None.

(* ---- string constants ---- *)
Definition s_define : str := [100;101;102;105;110;101].
Definition s_mode : str := [109;111;100;101].
Definition s_all : str := [97;108;108].
Definition s_default : str := [100;101;102;97;117;108;116].
Definition s_components : str := [99;111;109;112;111;110;101;110;116;115].
Definition s_ingredients : str := [105;110;103;114;101;100;105;101;110;116;115].
Definition s_steps : str := [115;116;101;112;115].
Definition s_text : str := [116;101;120;116].
Definition s_duplicate : str := [100;117;112;108;105;99;97;116;101].
Definition s_new : str := [110;101;119].
Definition s_reference : str := [114;101;102;101;114;101;110;99;101].
Definition s_ref : str := [114;101;102].

(* ---- parse_reference (1498-1510): a name that is a relative path keeps its file stem ---- *)
Definition is_sep (c : N) : bool := (c =? 47) || (c =? 92).
Definition is_path_name (s : str) : bool :=
  match s with
  | a :: b :: r =>
      (a =? 46) && (is_sep b || ((b =? 46) && match r with c :: _ => is_sep c | [] => false end))
  | _ => false
  end.
Fixpoint last_segment (s acc : str) : str :=
  match s with
  | [] => acc
  | c :: r => if is_sep c then last_segment r [] else last_segment r (acc ++ [c])
  end.

(* the extensions the pass consults *)
Record aext := { x_modes : bool; x_inline : bool; x_advanced : bool }.
(* behaviour switches: [skip_*] false = the code before the repair c9128f1; [text_raw] true = the
   code before the repair 200c896 (in_text pushed the raw source of a component, comments
   included).  [cfgF] is the code as it is now, [cfgT] the code between the two repairs. *)
Record acfg := { skip_empty_text : bool; skip_empty_step : bool; text_raw : bool }.
Definition cfg0 : acfg := {| skip_empty_text := false; skip_empty_step := false; text_raw := true |}.
Definition cfgT : acfg := {| skip_empty_text := true; skip_empty_step := true; text_raw := true |}.
Definition cfgF : acfg := {| skip_empty_text := true; skip_empty_step := true; text_raw := false |}.

(* in_text after 200c896 (event_consumer.rs 580-595): `lexer::Cursor` over the component's source,
   every token's text pushed except LineComment / BlockComment tokens.  Which characters lie in
   comment tokens does not depend on the Unicode classification: it is the comment mask of
   Model/CommentMask.v (Proofs/MaskProofs.v [mask_is_lexer]: [mask s = token_mask ts] for the tokens
   [ts] of [s] under every classification in which the special characters break words; restated for
   this function as [strip_comments_is_lexer] in Proofs/EditAnalysis.v). *)
Fixpoint keep_unmasked (s : str) (m : list bool) : str :=
  match s, m with
  | c :: r, b :: mr => if b then keep_unmasked r mr else c :: keep_unmasked r mr
  | _, _ => []
  end.
Definition strip_comments (s : str) : str := keep_unmasked s (CommentMask.mask s).

Section Collector.
Variable ci_key : str -> str.
Variable yaml_ok : str -> bool.
Variable find_iq : str -> option (str * str).
Variable unit_class : str -> N.
Variable input : str.
Variable x : aext.
Variable cfg : acfg.

(* ---- quantity / value (now 1044-1054 / 1056-1084): the value is moved into the result unchanged,
   `ScalableValue::Linear(value.into_inner())` for an ingredient number or range without a lock,
   `ScalableValue::Fixed(value.into_inner())` otherwise; the unit is its trimmed text.  Neither
   resolve_reference (1086-1242) nor the reference checks of ingredient / cookware (644-774,
   933-990) write a quantity: they read `quantity.is_some()`, `value().is_text()` and the unit. ---- *)
Definition value_info (is_ingredient : bool) (v : pqvalue) : qinfo :=
  let t := pvalue_is_text (qv_value v) in
  {| qi_text := t; qi_fixed := negb (is_ingredient && negb t && negb (qv_lock v)); qi_unit := None;
     qi_value := qv_value v |}.

Definition quantity_info (is_ingredient : bool) (q : pquantity) : qinfo :=
  let i := value_info is_ingredient (pq_value q) in
  {| qi_text := qi_text i; qi_fixed := qi_fixed i; qi_unit := option_map text_trimmed (pq_unit q);
     qi_value := qi_value i |}.

(* ---- metadata (329-380): only the config keys matter ---- *)
Definition metadata (s : astate) (key value : text) : astate :=
  let key_t := text_trimmed key in
  let value_t := text_outer_trimmed value in
  if x_modes x && (match key_t with c :: _ => c =? 91 | [] => false end)
     && (match rev key_t with c :: _ => c =? 93 | [] => false end)
  then
    let config_key := removelast (tl key_t) in      (* &key_t[1..key_t.len() - 1] *)
    if str_eqb config_key s_define || str_eqb config_key s_mode then
      if str_eqb value_t s_all || str_eqb value_t s_default then set_modes s DMAll (a_duplicate s)
      else if str_eqb value_t s_components || str_eqb value_t s_ingredients then set_modes s DMComponents (a_duplicate s)
      else if str_eqb value_t s_steps then set_modes s DMSteps (a_duplicate s)
      else if str_eqb value_t s_text then set_modes s DMText (a_duplicate s)
      else add_error s true
    else if str_eqb config_key s_duplicate then
      if str_eqb value_t s_new || str_eqb value_t s_default then set_modes s (a_define s) DupNew
      else if str_eqb value_t s_reference || str_eqb value_t s_ref then set_modes s (a_define s) DupReference
      else add_error s true
    else s
  else s.

(* ---- resolve_intermediate_ref (770-890): None = an error diagnostic ---- *)
Definition resolve_intermediate_ref (s : astate) (d : inter_data) : outcome (option relation) :=
  if (ir_val d <? 0)%Z then Panic site_inter_negative else
  let val := Z.to_nat (ir_val d) in
  match val with
  | O => Done None
  | S v1 =>
      match ir_kind d, ir_mode d with
      | TKStep, RMNumber =>
          match nth_error (step_indices (sec_content (a_cur s))) v1 with
          | Some i => Done (Some (RRef i TgStep))
          | None => Done None
          end
      | TKStep, RMRelative =>                 (* nth_back *)
          match nth_error (rev (step_indices (sec_content (a_cur s)))) v1 with
          | Some i => Done (Some (RRef i TgStep))
          | None => Done None
          end
      | TKSection, RMNumber =>
          if (length (a_sections s) <=? v1)%nat then Done None
          else Done (Some (RRef v1 TgSection))
      | TKSection, RMRelative =>
          if (length (a_sections s) <? val)%nat then Done None
          else Done (Some (RRef (length (a_sections s) - val)%nat TgSection))
      end
  end.

(* ---- resolve_reference (1061-1217), generic in the component kind ---- *)
Definition same_name (tbl : list component) (name : str) : option nat :=
  rposition (fun o => negb (m_ref (c_mods o)) && str_eqb (ci_key name) (ci_key (c_name o))) tbl.

Record resolved := {
  rs_new : component;
  rs_target : option (nat * bool);     (* references_to, implicit *)
  rs_err : bool }.

Definition resolve_reference (s : astate) (tbl : list component) (inherit : modifiers)
    (new : component) : outcome resolved :=
  let m := c_mods new in
  if m_new m && m_ref m then Done {| rs_new := new; rs_target := None; rs_err := true |}
  else if m_new m then Done {| rs_new := new; rs_target := None; rs_err := false |}
  else
    let same := same_name tbl (c_name new) in
    let treat := m_ref m || dm_eqb (a_define s) DMSteps || (dup_is_ref (a_duplicate s) && is_some same) in
    if negb treat then Done {| rs_new := new; rs_target := None; rs_err := false |}
    else
      let implicit := negb (m_ref m) in
      match same with
      | Some j =>
          match nth_error tbl j with
          | None => Panic site_index_definition
          | Some referenced =>
              if m_ref (c_mods referenced) then Panic site_assert_target_not_ref else
              let inherited := mods_and (c_mods referenced) inherit in
              let conflict := mods_diff (mods_diff m inherited) M_ref_only in
              let m' := mods_or (mods_or m inherited) M_ref_only in
              Done {| rs_new := set_mods_rel new m' (RRef j TgComponent);
                      rs_target := Some (j, implicit);
                      rs_err := negb (mods_is_empty conflict) |}
          end
      | None => Done {| rs_new := new; rs_target := None; rs_err := true |}
      end.

(* the checks on a found definition and the back link (624-626, 690-721, 748;
   911-937, 964).  Returns the table with the back link added and whether an
   error was reported. *)
Definition link_reference (tbl : list component) (new : component) (j : nat)
    (has_note : bool) (units_loop : bool) : outcome (list component * bool) :=
  match nth_error tbl j with
  | None => Panic site_index_definition
  | Some def =>
      match c_rel def with
      | RRef _ _ => Panic site_assert_is_definition
      | RDef rf dis =>
          if units_loop && is_some (c_qty new) && negb (forallb (fun k => (k <? length tbl)%nat) rf)
          then Panic site_units_index else
          let err := has_note || (is_some (c_qty def) && is_some (c_qty new) && negb dis) in
          Done (upd_nth tbl j (set_rel def (RDef (rf ++ [length tbl]) dis)), err)
      end
  end.

Definition inherit_ingredient : modifiers :=
  {| m_recipe := true; m_ref := false; m_hidden := true; m_opt := true; m_new := false |}.
Definition inherit_cookware : modifiers :=
  {| m_recipe := false; m_ref := false; m_hidden := true; m_opt := true; m_new := false |}.
Definition inter_invalid : modifiers :=    (* RECIPE | HIDDEN | NEW *)
  {| m_recipe := true; m_ref := false; m_hidden := true; m_opt := false; m_new := true |}.

(* ---- ingredient (576-768): returns the new state and the index ---- *)
Definition ingredient (s : astate) (ig : p_ingredient) : outcome (astate * nat) :=
  let name0 := text_trimmed (pi_name ig) in
  let isp := is_path_name name0 in
  let name := if isp then last_segment name0 [] else name0 in
  let new :=
    {| c_name := name; c_alias := option_map text_trimmed (pi_alias ig);
       c_qty := option_map (quantity_info true) (pi_quantity ig);
       c_note := option_map text_trimmed (pi_note ig); c_rref := isp;
       c_mods := pi_mods ig;
       c_rel := RDef [] (negb (dm_eqb (a_define s) DMComponents)) |} in
  let tbl := a_ingredients s in
  match pi_inter ig with
  | Some d =>
      if negb (m_ref (c_mods new)) then Panic site_inter_without_ref else
      let e1 := mods_intersects (c_mods new) inter_invalid in
      obind (resolve_intermediate_ref s d) (fun r =>
        let (new', e2) := match r with
                          | Some rel => (set_rel new rel, false)
                          | None => (new, true)
                          end in
        Done (add_error (set_ingredients s (tbl ++ [new'])) (e1 || e2), length tbl))
  | None =>
      obind (resolve_reference s tbl inherit_ingredient new) (fun r =>
        match rs_target r with
        | Some (j, _) =>
            obind (link_reference tbl (rs_new r) j (is_some (pi_note ig)) (x_advanced x)) (fun te =>
              let (tbl', e) := te in
              Done (add_error (set_ingredients s (tbl' ++ [rs_new r])) (rs_err r || e), length tbl))
        | None =>
            Done (add_error (set_ingredients s (tbl ++ [rs_new r])) (rs_err r), length tbl)
        end)
  end.

(* ---- cookware (892-970) ---- *)
Definition cookware (s : astate) (cw : p_cookware) : outcome (astate * nat) :=
  let new :=
    {| c_name := text_trimmed (pc_name cw); c_alias := option_map text_trimmed (pc_alias cw);
       c_qty := option_map (value_info false) (pc_quantity cw);
       c_note := option_map text_trimmed (pc_note cw); c_rref := false;
       c_mods := pc_mods cw;
       c_rel := RDef [] (negb (dm_eqb (a_define s) DMComponents)) |} in
  let tbl := a_cookware s in
  obind (resolve_reference s tbl inherit_cookware new) (fun r =>
    match rs_target r with
    | Some (j, _) =>
        obind (link_reference tbl (rs_new r) j (is_some (pc_note cw)) false) (fun te =>
          let (tbl', e) := te in
          Done (add_error (set_cookware s (tbl' ++ [rs_new r])) (rs_err r || e), length tbl))
    | None =>
        Done (add_error (set_cookware s (tbl ++ [rs_new r])) (rs_err r), length tbl)
    end).

(* ---- timer (972-1017) ---- *)
Definition timer (s : astate) (t : p_timer) : astate * nat :=
  let q := option_map (quantity_info false) (pt_quantity t) in
  let err :=
    match q with
    | Some qi =>
        x_advanced x &&
        (qi_text qi || match qi_unit qi with
                       | Some u => negb (unit_class u =? 1)
                       | None => false
                       end)
    | None => false
    end in
  let new := {| tm_name := option_map text_trimmed (pt_name t); tm_qty := q |} in
  (add_error (set_timers s (a_timers s ++ [new])) err, length (a_timers s)).

(* ---- the inline quantity loop of in_step (507-529) ---- *)
Fixpoint split_iq (fuel : nat) (hay : str) (items : list item) (n : nat) : outcome (list item * nat) :=
  match find_iq hay with
  | Some (before, after) =>
      match fuel with
      | O => Panic site_iq_fuel
      | S f =>
          let items1 := if is_nil before then items else items ++ [IText before] in
          split_iq f after (items1 ++ [IInline n]) (S n)
      end
  | None => Done (if is_nil hay then items else items ++ [IText hay], n)
  end.

(* ---- in_step (490-549) ---- *)
Definition in_step (s : astate) (e : event) (items : list item) : outcome astate :=
  match e with
  | EText t =>
      let tx := text_str t in
      if dm_eqb (a_define s) DMComponents then Done s
      else if x_inline x then
        obind (split_iq (S (length tx)) tx items (a_inline s)) (fun r =>
          let (items', n') := r in
          Done (set_block (set_inline s n') (Some (BStep items'))))
      else Done (set_block s (Some (BStep (items ++ [IText tx]))))
  | EIngredient ig =>
      obind (ingredient s ig) (fun r =>
        let (s', i) := r in Done (set_block s' (Some (BStep (items ++ [IIngredient i])))))
  | ECookware cw =>
      obind (cookware s cw) (fun r =>
        let (s', i) := r in Done (set_block s' (Some (BStep (items ++ [ICookware i])))))
  | ETimer t =>
      let (s', i) := timer s t in Done (set_block s' (Some (BStep (items ++ [ITimer i]))))
  | _ => Panic 547
  end.

(* ---- in_text (562-600) ---- *)
Definition comp_src (sl : str) : str := if text_raw cfg then sl else strip_comments sl.

Definition in_text (s : astate) (e : event) (tx : str) : outcome astate :=
  let comp (sp : span) :=
    if negb (dm_eqb (a_define s) DMText) then Panic site_nontext_in_text else
    match byte_slice input sp with
    | Some sl => Done (set_block s (Some (BText (tx ++ comp_src sl))))
    | None => Panic site_in_text_slice
    end in
  match e with
  | EText t => Done (set_block s (Some (BText (tx ++ text_str t))))
  | EIngredient ig => comp (pi_span ig)
  | ECookware cw => comp (pc_span cw)
  | ETimer t => comp (pt_span t)
  | _ => Panic 572
  end.

(* ---- the End event (150-179) ---- *)
Definition content_is_empty (c : content) : bool :=
  match c with CStep st => is_nil (st_items st) | CText t => is_nil t end.

Definition skipped (c : content) : bool :=
  match c with
  | CStep st => skip_empty_step cfg && is_nil (st_items st)
  | CText t => skip_empty_text cfg && is_nil t
  end.

Definition finish_block (s : astate) (c : content) : outcome astate :=
  if negb (skipped c) && (negb (dm_eqb (a_define s) DMComponents) || is_text c) then
    let cur := {| sec_name := sec_name (a_cur s); sec_content := sec_content (a_cur s) ++ [c] |} in
    if is_step c then
      if 4294967295 <=? N.of_nat (a_counter s) then Panic site_step_counter_overflow
      else Done (set_block (set_sections s (a_sections s) cur (S (a_counter s))) None)
    else Done (set_block (set_sections s (a_sections s) cur (a_counter s)) None)
  else Done (set_block s None).

Definition end_block (s : astate) (k : block_kind) : outcome astate :=
  match a_block s with
  | Some (BStep items) =>
      if block_kind_eqb k BKStep
      then finish_block s (CStep {| st_items := items; st_number := a_counter s |})
      else Panic site_end_kind_step
  | Some (BText t) =>
      if block_kind_eqb k BKText || dm_eqb (a_define s) DMText
      then finish_block s (CText t)
      else Panic site_end_kind_text
  | None => Panic site_end_without_start
  end.

(* sections.push(current_section) unless it is empty (133-135, 205-207) *)
Definition pushed_sections (s : astate) : list section :=
  if section_is_empty (a_cur s) then a_sections s else a_sections s ++ [a_cur s].

(* ---- one iteration of the event loop (124-203) ---- *)
Definition step (s : astate) (e : event) : outcome astate :=
  if a_halted s then Done s else      (* events.for_each after an Error: only diagnostics are collected *)
  match e with
  | EYaml t => Done (add_error s (negb (yaml_ok (text_str t))))
  | EMetadata k v => Done (metadata s k v)
  | ESection name =>
      Done (set_sections s (pushed_sections s)
              {| sec_name := option_map text_trimmed name; sec_content := [] |} 1%nat)
  | EStart k =>
      Done (set_block s (Some (if dm_eqb (a_define s) DMText then BText []
                               else match k with BKStep => BStep [] | BKText => BText [] end)))
  | EEnd k => end_block s k
  | EText _ | EIngredient _ | ECookware _ | ETimer _ =>
      match a_block s with
      | Some (BStep items) => in_step s e items
      | Some (BText t) => in_text s e t
      | None => Panic site_content_outside_block
      end
  | EError _ => Done (set_halted s)
  | EWarning _ => Done s
  end.

Fixpoint run (s : astate) (evs : list event) : outcome astate :=
  match evs with
  | [] => Done s
  | e :: r => obind (step s e) (fun s' => run s' r)
  end.

(* PassResult: output (None after a parser error) and is_valid *)
Definition output (s : astate) : option recipe :=
  if a_halted s then None
  else Some {| r_sections := pushed_sections s; r_ingredients := a_ingredients s;
               r_cookware := a_cookware s; r_timers := a_timers s; r_inline := a_inline s |}.

Definition is_valid (s : astate) : bool := negb (a_halted s) && negb (a_errors s).

Definition analyse (evs : list event) : outcome (option recipe * bool) :=
  obind (run init evs) (fun s => Done (output s, is_valid s)).

End Collector.
