(* Model of /repo/src/aisle.rs: parse (100-186), write (189-207),
   ingredients_info (76-96).  Hand translation, function by function; tied to
   the code by the L-aisle correspondence.  Panics are values.

   [strict_end] selects the bound of the second assertion in calc_span:
   true  : s_ptr <= input_ptr + (len - 1)      (aisle.rs before the repair)
   false : s_ptr <= input_ptr + len
   [uni_line] selects how the whole line is trimmed:
   false : trim_ascii (before the repair)   true : trim (as the names are). *)
From CL Require Export Base.Chars.

Record cfg := { strict_end : bool; uni_line : bool }.

Inductive aerr :=
| EParse (s e : N)
| EDupCat (name : str) (s1 e1 s2 e2 : N)
| EDupIng (name : str) (s1 e1 s2 e2 : N).

Record cat := { cname : str; cings : list (list str) }.
Definition conf := list cat.

Inductive res (A : Type) := ROk (a : A) | RErr (e : aerr).
Arguments ROk {A} a.
Arguments RErr {A} e.

(* --- string helpers ------------------------------------------------- *)

(* str::split(c): always at least one piece *)
Fixpoint split_on (d : N) (s : str) : list str :=
  match s with
  | [] => [[]]
  | c :: r =>
      if c =? d then [] :: split_on d r
      else match split_on d r with
           | l :: ls => (c :: l) :: ls
           | [] => [[c]]
           end
  end.

(* prefix before the first "//" (split_once) *)
Fixpoint strip_comment (l : str) : str :=
  match l with
  | a :: r =>
      match r with
      | b :: _ => if (a =? 47) && (b =? 47) then [] else a :: strip_comment r
      | [] => [a]
      end
  | [] => []
  end.

Fixpoint trim_start (ws : N -> bool) (l : str) (off : N) : str * N :=
  match l with
  | c :: r => if ws c then trim_start ws r (off + utf8_len c) else (l, off)
  | [] => ([], off)
  end.

Fixpoint trim_end (ws : N -> bool) (l : str) : str :=
  match l with
  | [] => []
  | c :: r =>
      match trim_end ws r with
      | [] => if ws c then [] else [c]
      | r' => c :: r'
      end
  end.

(* <[u8]>::trim_ascii = trim_ascii_start then trim_ascii_end *)
Definition trim_ascii_at (l : str) (off : N) : str * N :=
  let '(l1, o1) := trim_start ascii_ws l off in (trim_end ascii_ws l1, o1).

(* str::trim = trim_matches(char::is_whitespace): an all-blank string yields
   the empty slice at its START (i = j = 0) *)
Definition trim_at (l : str) (off : N) : str * N :=
  let '(l1, o1) := trim_start uni_ws l off in
  match l1 with
  | [] => ([], off)
  | _ => (trim_end uni_ws l1, o1)
  end.

Definition trim_line (c : cfg) (l : str) (off : N) : str * N :=
  if uni_line c then trim_at l off else trim_ascii_at l off.

(* pieces of split('|') with their byte offsets *)
Fixpoint with_offsets (ps : list str) (off : N) : list (str * N) :=
  match ps with
  | [] => []
  | p :: r => (p, off) :: with_offsets r (off + blen p + 1)
  end.

Fixpoint lookup (k : str) (m : list (str * N)) : option N :=
  match m with
  | [] => None
  | (k', v) :: r => if str_eqb k k' then Some v else lookup k r
  end.

Fixpoint mem (c : N) (s : str) : bool :=
  match s with [] => false | x :: r => (x =? c) || mem c r end.

(* --- calc_span ------------------------------------------------------ *)

Definition site_calc_span : N := 112.

Definition calc_span (c : cfg) (ilen : N) (off len : N) : outcome (N * N) :=
  if (if strict_end c then off <=? ilen - 1 else off <=? ilen)
  then Done (off, off + len) else Panic site_calc_span.

(* --- parser state --------------------------------------------------- *)

Record pst := {
  cats : list cat;            (* finished categories, file order *)
  cur : option cat;           (* current_category *)
  ucats : list (str * N);     (* used_categories with the offset of the stored slice *)
  unames : list (str * N)     (* used_names *)
}.

Definition pst0 : pst := {| cats := []; cur := None; ucats := []; unames := [] |}.

Definition is_cat_line (l : str) : bool :=
  match l with
  | c :: _ => (c =? 91) && (last l 0 =? 93)
  | [] => false
  end.

(* names loop of one ingredient line: Done (inl err) / Done (inr used') / Panic *)
Fixpoint names_loop (c : cfg) (ilen : N) (ps : list (str * N)) (used : list (str * N))
  : outcome (aerr + list (str * N)) :=
  match ps with
  | [] => Done (inr used)
  | (p, off) :: r =>
      let '(n, o) := trim_at p off in
      match lookup n used with
      | Some o1 =>
          obind (calc_span c ilen o1 (blen n)) (fun s1 =>
          obind (calc_span c ilen o (blen n)) (fun s2 =>
          Done (inl (EDupIng n (fst s1) (snd s1) (fst s2) (snd s2)))))
      | None => names_loop c ilen r (used ++ [(n, o)])
      end
  end.

Definition process_line (c : cfg) (ilen : N) (raw : str) (off : N) (st : pst)
  : outcome (aerr + pst) :=
  let '(line, o) := trim_line c (strip_comment raw) off in
  if is_cat_line line then
    let name := removelast (tl line) in
    let no := o + 1 in
    if mem 124 name then
      obind (calc_span c ilen no (blen name)) (fun s =>
      Done (inl (EParse (fst s) (snd s))))
    else
      match lookup name (ucats st) with
      | Some o1 =>
          obind (calc_span c ilen o1 (blen name)) (fun s1 =>
          obind (calc_span c ilen no (blen name)) (fun s2 =>
          Done (inl (EDupCat name (fst s1) (snd s1) (fst s2) (snd s2)))))
      | None =>
          Done (inr {| cats := match cur st with
                               | Some k => cats st ++ [k]
                               | None => cats st
                               end;
                       cur := Some {| cname := name; cings := [] |};
                       ucats := ucats st ++ [(name, no)];
                       unames := unames st |})
      end
  else
    match line with
    | [] => Done (inr st)
    | _ =>
        let ps := with_offsets (split_on 124 line) o in
        obind (names_loop c ilen ps (unames st)) (fun r =>
        match r with
        | inl e => Done (inl e)
        | inr used' =>
            match cur st with
            | Some k =>
                let names := map (fun po => fst (trim_at (fst po) (snd po))) ps in
                Done (inr {| cats := cats st;
                             cur := Some {| cname := cname k;
                                            cings := cings k ++ [names] |};
                             ucats := ucats st;
                             unames := used' |})
            | None =>
                obind (calc_span c ilen o (blen line)) (fun s =>
                Done (inl (EParse (fst s) (snd s))))
            end
        end)
    end.

Definition finish (st : pst) : conf :=
  match cur st with
  | Some k => cats st ++ [k]
  | None => cats st
  end.

(* strip one trailing CR (a line that was terminated by LF) *)
Definition strip_cr (l : str) : str :=
  match l with
  | [] => []
  | _ => if last l 0 =? 13 then removelast l else l
  end.

(* str::lines over the pieces of split('\n'): every piece but the last was
   terminated by LF (strip one CR); a last empty piece is not a line; a last
   non-empty piece keeps a trailing CR. *)
Fixpoint lines_loop (c : cfg) (ilen : N) (pieces : list str) (off : N) (st : pst)
  : outcome (res conf) :=
  match pieces with
  | [] => Done (ROk (finish st))
  | p :: rest =>
      match rest with
      | [] =>
          match p with
          | [] => Done (ROk (finish st))
          | _ =>
              obind (process_line c ilen p off st) (fun r =>
              match r with
              | inl e => Done (RErr e)
              | inr st' => Done (ROk (finish st'))
              end)
          end
      | _ =>
          obind (process_line c ilen (strip_cr p) off st) (fun r =>
          match r with
          | inl e => Done (RErr e)
          | inr st' => lines_loop c ilen rest (off + blen p + 1) st'
          end)
      end
  end.

Definition parse (c : cfg) (s : str) : outcome (res conf) :=
  lines_loop c (blen s) (split_on 10 s) 0 pst0.

(* --- write ----------------------------------------------------------- *)

Fixpoint join_bar (names : list str) : str :=
  match names with
  | [] => []
  | [n] => n
  | n :: r => n ++ 124 :: join_bar r
  end.

Definition write_ing (names : list str) : str :=
  match names with
  | [] => []
  | _ => join_bar names ++ [10]
  end.

Definition write_cat (k : cat) : str :=
  91 :: cname k ++ 93 :: 10 :: concat (map write_ing (cings k)) ++ [10].

Definition write (c : conf) : str := concat (map write_cat c).

(* --- ingredients_info ------------------------------------------------ *)

(* HashMap::insert: the later entry replaces an earlier one with the same key *)
Fixpoint map_insert {V} (k : str) (v : V) (m : list (str * V)) : list (str * V) :=
  match m with
  | [] => [(k, v)]
  | (k', v') :: r => if str_eqb k k' then (k, v) :: r else (k', v') :: map_insert k v r
  end.

Definition info_ing (category : str) (m : list (str * (str * str))) (names : list str) :=
  match names with
  | [] => m
  | common :: _ => fold_left (fun m n => map_insert n (category, common) m) names m
  end.

Definition info_cat (m : list (str * (str * str))) (k : cat) :=
  fold_left (info_ing (cname k)) (cings k) m.

(* name |-> (category, common name) *)
Definition info (c : conf) : list (str * (str * str)) := fold_left info_cat c [].

Fixpoint info_get (k : str) (m : list (str * (str * str))) : option (str * str) :=
  match m with
  | [] => None
  | (k', v) :: r => if str_eqb k k' then Some v else info_get k r
  end.
