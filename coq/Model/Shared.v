(* Shared.v - the state model of C18: what outlives a call, what a call owns, what threads share.

   What the Rust code has (inventory regenerated into Gen/SharedState.v on every run):
     * src/quantity.rs:633-634   static TABLE: LazyLock<FractionLookupTable>   -- process wide, built on
                                 first dereference (Number::new_approx, quantity.rs:735-781), never written again
     * src/lib.rs:169-173        struct CooklangParser { extensions: Extensions, converter: Converter }
                                 every method takes &self; no field has interior mutability  -- [config]
     * src/analysis/event_consumer.rs:51-85  parse_events builds a fresh RecipeCollector (a local
                                 value, moved into col.parse_events) for every call     -- [collector]
     * src/lib.rs:222-251        parse_with_options / parse_metadata_with_options: a fresh PullParser per call
                                                                                         -- [events]
   The aisle items of the inventory (a Cell field of AisleConf, two unsafe pointer-offset blocks in
   aisle::parse) are not reachable from a CooklangParser: see [disposition] below.

   THE PARSE FUNCTION ITSELF IS A SECTION VARIABLE (any init/consume/finish): the theorems of C18 are
   about the bookkeeping - who can write what - not about what the parser computes.  A call is NOT
   atomic in this model: it is Begin, one Step per event, End, and other threads' actions may come
   between any two of them.

   Not modelled (the runtime's, see Properties/C18.v): memory-level interleavings inside one action,
   Send/Sync soundness, the implementation of std::sync::LazyLock/Once (modelled as: the first
   dereference installs the value of FractionLookupTable::new(), every later one reads it). *)
From Coq Require Import List Arith Bool Permutation.
From Coq Require Import String.
Import ListNotations.
From CL Require Import Gen.SharedState.
Set Implicit Arguments.

Section Shared.
  (* config = (Extensions, Converter) of one CooklangParser value; immutable *)
  Variables (config input event collector result ftable : Type).
  (* FractionLookupTable::new() takes no argument and reads nothing: a constant (quantity.rs:644-672) *)
  Variable mk_table : ftable.
  (* PullParser::new(input, extensions) collected, or its into_meta_iter() *)
  Variable events : config -> input -> list event.
  (* the RecipeCollector literal of parse_events *)
  Variable init : config -> input -> collector.
  (* one iteration of the event loop; may dereference TABLE (it does not today; the model allows it so
     that the theorems also cover the parse-then-scale-then-convert pipelines, which do) *)
  Variable consume : config -> ftable -> collector -> event -> collector.
  (* the end of col.parse_events: PassResult::new(content, ctx) *)
  Variable finish : config -> collector -> result.

  (* what a call computes when nothing else exists: the specification *)
  Definition pure_parse (p : config) (i : input) : result :=
    finish p (fold_left (consume p mk_table) (events p i) (init p i)).

  (* ---- atomic actions of a thread ------------------------------------------------------------ *)
  Inductive action :=
  | Force                          (* any dereference of TABLE outside a parse (scale, convert, fit) *)
  | Begin (p : config) (i : input) (* enter parser p's parse(i): fresh collector, fresh pull parser *)
  | Step                           (* consume the next event *)
  | End_.                          (* return the result *)

  (* thread-local: the call in flight (owned values on that thread's stack) and what it returned so far *)
  Record local := mkLocal { cur : option (config * collector * list event); outs : list result }.
  Definition local0 : local := mkLocal None [].

  (* the world: the only process-wide state, and each thread's locals *)
  Record world := mkWorld { table : option ftable; locals : nat -> local }.
  Definition world0 : world := mkWorld None (fun _ => local0).

  (* LazyLock::force: the installed value, or the initialiser's *)
  Definition deref (t : option ftable) : ftable := match t with Some v => v | None => mk_table end.

  (* effect of an action on the acting thread's locals, given the table value it reads *)
  Definition lstep (t : ftable) (l : local) (a : action) : local :=
    match a with
    | Force => l
    | Begin p i => mkLocal (Some (p, init p i, events p i)) (outs l)
    | Step => match cur l with
              | Some (p, c, e :: es) => mkLocal (Some (p, consume p t c e, es)) (outs l)
              | _ => l
              end
    | End_ => match cur l with
              | Some (p, c, _) => mkLocal None (outs l ++ [finish p c])
              | None => l
              end
    end.

  (* does the action dereference TABLE? *)
  Definition touches (a : action) : bool := match a with Force | Step => true | _ => false end.

  Definition upd (f : nat -> local) (k : nat) (v : local) : nat -> local :=
    fun j => if Nat.eqb j k then v else f j.

  (* one atomic step of thread k.  The ONLY write to process-wide state is the idempotent install. *)
  Definition step (w : world) (ka : nat * action) : world :=
    let (k, a) := ka in
    let t := deref (table w) in
    mkWorld (if touches a then Some t else table w)
            (upd (locals w) k (lstep t (locals w k) a)).

  (* a schedule is the global sequence of (thread, action); its projection on thread k is k's program *)
  Definition run (w : world) (tr : list (nat * action)) : world := fold_left step tr w.

  Fixpoint proj (k : nat) (tr : list (nat * action)) : list action :=
    match tr with
    | [] => []
    | (j, a) :: r => if Nat.eqb j k then a :: proj k r else proj k r
    end.

  (* tr is an interleaving of the programs ps (thread k runs nth k ps) *)
  Definition interleaving (ps : list (list action)) (tr : list (nat * action)) : Prop :=
    forall k, proj k tr = nth k ps [].

  (* a thread alone in a world whose table is already the fixed value *)
  Definition run_local (l : local) (p : list action) : local := fold_left (lstep mk_table) p l.

  (* the program of one call, and of a history of calls on parser p (Force may be sprinkled anywhere:
     see [with_forces]) *)
  Definition call (p : config) (i : input) : list action :=
    Begin p i :: repeat Step (List.length (events p i)) ++ [End_].
  Definition history (p : config) (is_ : list input) : list action := List.concat (map (call p) is_).
  (* calls on several parsers of the same process *)
  Definition calls (cs : list (config * input)) : list action :=
    List.concat (map (fun c => call (fst c) (snd c)) cs).

  (* a program with its Force actions (table dereferences by scale / convert / fit between or during
     parses) erased: what is left must be the calls *)
  Fixpoint no_force (p : list action) : list action :=
    match p with
    | [] => []
    | Force :: r => no_force r
    | a :: r => a :: no_force r
    end.

  Definition reachable (w : world) : Prop := exists tr, w = run world0 tr.
  Definition table_ok (t : option ftable) : Prop := t = None \/ t = Some mk_table.
End Shared.

Arguments Force {config input}.
Arguments Step {config input}.
Arguments End_ {config input}.
Arguments Begin {config input}.

(* ---- what the model does with each kind of inventory item ------------------------------------- *)
Inductive disposition :=
| ModelledAsTable      (* the [table] field of [world] *)
| NotReachable         (* belongs to a value no CooklangParser refers to (AisleConf: its Cell caches a
                          length for ingredients_info; Cell makes AisleConf !Sync, so it cannot be shared) *)
| NoState              (* an unsafe block that computes a pointer offset inside aisle::parse; holds nothing *)
| Unaccounted.

Definition disposition_of (it : String.string * kind) : disposition :=
  let (a, k) := it in
  if andb (String.eqb a "quantity"%string) (kind_eqb k StaticLazyLock) then ModelledAsTable
  else if andb (String.eqb a "aisle"%string) (kind_eqb k FieldCell) then NotReachable
  else if andb (String.eqb a "aisle"%string) (kind_eqb k UnsafeBlock) then NoState
  else Unaccounted.

(* items that live for the whole process *)
Definition process_wide (k : kind) : bool :=
  match k with
  | StaticLazyLock | StaticMut | StaticInterior | StaticPlain | ThreadLocal | MacroLazy => true
  | _ => false
  end.

(* ---- hash maps that are only probed ------------------------------------------------------------
   std HashMap with a per-map random seed, modelled as an association list in arbitrary order.
     * convert/mod.rs:246-256  UnitIndex(HashMap<Arc<str>, usize>), get_unit_id = a probe
     * event_consumer.rs:106-111 Locations.metadata : HashMap<StdKey, (Text, Text)>; insert (444-446),
       get (456-464), remove (477-479); never iterated
   time_override_check (event_consumer.rs:455-500) is modelled on the projection it uses: the map from
   StdKey to the span (key start, value end). *)
Section Maps.
  Variables (K V : Type).
  Variable keq : K -> K -> bool.
  Hypothesis keq_spec : forall a b, keq a b = true <-> a = b.

  Fixpoint lookup (k : K) (m : list (K * V)) : option V :=
    match m with [] => None | (k', v) :: r => if keq k k' then Some v else lookup k r end.
  Fixpoint remove_key (k : K) (m : list (K * V)) : list (K * V) :=
    match m with [] => [] | (k', v) :: r => if keq k k' then remove_key k r else (k', v) :: remove_key k r end.
  (* HashMap::insert: replaces; where the entry lands is the hasher's business *)
  Definition insert (k : K) (v : V) (m : list (K * V)) : list (K * V) := (k, v) :: remove_key k m.

  (* two maps with the same content (what two runs with different hash seeds have in common) *)
  Definition same_content (m m' : list (K * V)) : Prop := forall k, lookup k m = lookup k m'.
End Maps.
Arguments lookup {K V}.
Arguments remove_key {K V}.
Arguments insert {K V}.
Arguments same_content {K V}.

Inductive stdkey := KTime | KPrepTime | KCookTime | KOther (n : nat).
Definition stdkey_eqb (a b : stdkey) : bool :=
  match a, b with
  | KTime, KTime | KPrepTime, KPrepTime | KCookTime, KCookTime => true
  | KOther x, KOther y => Nat.eqb x y
  | _, _ => false
  end.

Definition span := (nat * nat)%type.
Definition span_leb (a b : span) : bool :=
  orb (Nat.ltb (fst a) (fst b)) (andb (Nat.eqb (fst a) (fst b)) (Nat.leb (snd a) (snd b))).
Fixpoint ins_sorted (x : span) (l : list span) : list span :=
  match l with [] => [x] | y :: r => if span_leb x y then x :: l else y :: ins_sorted x r end.
(* v.sort_unstable() on spans (total order, so stability is irrelevant) *)
Definition sort_spans (l : list span) : list span := fold_right ins_sorted [] l.

(* the closure `locs` (456-468): probes a fixed slice of keys, sorts what it found *)
Definition locs (m : list (stdkey * span)) (keys : list stdkey) : list span :=
  sort_spans (flat_map (fun k => match lookup stdkey_eqb k m with Some s => [s] | None => [] end) keys).

Inductive tocheck := TPanic | TDone (m : list (stdkey * span)) (warning : option (list span * span)).

(* time_override_check(new): (map afterwards, labels of the warning: overridden spans, overriding span) *)
Definition time_override_check (m : list (stdkey * span)) (new : stdkey) : tocheck :=
  match locs m [new] with
  | [] => TPanic                                   (* locs(&[new])[0]: index out of bounds *)
  | overrides :: _ =>
      match (match new with
             | KTime => Some [KPrepTime; KCookTime]
             | KPrepTime | KCookTime => Some [KTime]
             | KOther _ => None end) with
      | None => TPanic                             (* panic!("unknown time special key") *)
      | Some ks =>
          let overriden := locs m ks in
          let m' := fold_left (fun acc k => remove_key stdkey_eqb k acc) ks m in
          TDone m' (match overriden with [] => None | _ => Some (overriden, overrides) end)
      end
  end.

(* outcomes agree up to the order of the map *)
Definition tocheck_same (a b : tocheck) : Prop :=
  match a, b with
  | TPanic, TPanic => True
  | TDone m w, TDone m' w' => same_content stdkey_eqb m m' /\ w = w'
  | _, _ => False
  end.
