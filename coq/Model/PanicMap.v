(* How the models treat every potential panic site of the parse path (for C03).

   [PanicSites.sites] (Gen/PanicSites.v, regenerated from /repo/src on every run of the C03 check by
   gen/gen_panics.py and pinned by C03_panic_inventory) lists every panic!/unreachable!/assert*!/
   debug_assert*! invocation, every .unwrap() / .expect(..), every index or slice expression, every std
   call that panics on a bad argument and every compound integer update / subtraction of the non-test
   code of src/lexer, src/parser, src/analysis, src/text.rs, src/span.rs, src/located.rs, src/error.rs
   and src/lib.rs.  [panic_table] gives, for each entry, in the same order:

     Site name n      the site is an explicit [Panic n] outcome of the models: [name] is the
                      `Definition site_*` (or the literal `Panic n`) of Model/PText.v, Model/Parser.v or
                      Model/Analysis.v that stands for it; that it is never reached is what
                      C03_events_total / C03_analyse_total / C03_parse_total prove;
     Unreachable why  the model has no outcome for it: the translation discharges it structurally (a
                      match on a list where the code indexes after a length check, one record where the code
                      keeps two parallel ones, ...); [why] states the reason;
     Unmodelled why   the enclosing function is outside the models (an oracle, a dropped feature, report
                      rendering): only the run-time monitor (catch_unwind around every consumer) and the
                      correspondence runs exercise it.

   The [why] strings are DOCUMENTATION of a modelling decision read off the source by hand; nothing here
   proves them (what ties the models to the code is the correspondence run of every check).  What IS
   checked, in Properties/C03.v:
     C03_panic_table_covers      map fst panic_table = PanicSites.sites: every site of the source is
                                 accounted for, none invented, order kept;
     C03_table_sites_exist       every [Site name n] names a site the models really define, with its value
                                 ([PanicSites.model_sites] is read from the Model/*.v files by the generator
                                 and refers to the constants themselves);
     C03_model_sites_accounted   conversely every site of the models is the image of at least one entry of
                                 the inventory, or is listed in [model_only] with the reason it has no
                                 counterpart in the source. *)
From Coq Require Import List String NArith Bool.
From CL Require Import Gen.PanicSites.
From CL Require Model.Lexer Model.PText Model.Parser Model.Analysis.
Import ListNotations.
Local Open Scope string_scope.

Inductive treatment :=
| Site (name : string) (n : N)
| Unreachable (why : string)
| Unmodelled (why : string).

Definition panic_table : list (site * treatment) := [
  (("lexer/cursor", "pos_within_token", KArith,
    "self.len_remaining - self.chars.as_str().len()"),
   Unreachable "len_remaining is the length of the rest at the start of the token and chars only shrinks; Model/Lexer.v computes token lengths from the consumed prefix");
  (("lexer/mod", "line_comment", KMacro,
    "debug_assert!(self.prev()=='-'&&self.first()=='-')"),
   Unmodelled "lexer debug assertion about the character just consumed: Model/Lexer.v has no panic outcome (lex_at is total: C03_lexer_total), the assertion restates the dispatch of advance_token; debug builds are exercised by the correspondence and the monitor");
  (("lexer/mod", "block_comment", KMacro,
    "debug_assert!(self.prev()=='['&&self.first()=='-')"),
   Unmodelled "lexer debug assertion about the character just consumed: Model/Lexer.v has no panic outcome (lex_at is total: C03_lexer_total), the assertion restates the dispatch of advance_token; debug builds are exercised by the correspondence and the monitor");
  (("lexer/mod", "word", KMacro,
    "debug_assert!(self.pos_within_token()>0)"),
   Unmodelled "lexer debug assertion about the character just consumed: Model/Lexer.v has no panic outcome (lex_at is total: C03_lexer_total), the assertion restates the dispatch of advance_token; debug builds are exercised by the correspondence and the monitor");
  (("lexer/mod", "whitespace", KMacro,
    "debug_assert!(is_whitespace(self.prev()))"),
   Unmodelled "lexer debug assertion about the character just consumed: Model/Lexer.v has no panic outcome (lex_at is total: C03_lexer_total), the assertion restates the dispatch of advance_token; debug builds are exercised by the correspondence and the monitor");
  (("lexer/mod", "number", KMacro,
    "debug_assert!(self.prev().is_ascii_digit())"),
   Unmodelled "lexer debug assertion about the character just consumed: Model/Lexer.v has no panic outcome (lex_at is total: C03_lexer_total), the assertion restates the dispatch of advance_token; debug builds are exercised by the correspondence and the monitor");
  (("parser/block_parser", "macro_rules!debug_assert_adjacent", KMacro,
    "debug_assert!($s.windows(2).all(|w|w[0].span.end()==w[1].span.start()))"),
   Unreachable "debug_assert_adjacent: the token slices handed to BlockParser are contiguous sub-slices of the lexer's tiling (C04 token adjacency); the model keeps tokens as a list with their spans and does not re-check adjacency");
  (("parser/block_parser", "macro_rules!debug_assert_adjacent", KCall,
    "s.windows(2)"),
   Unreachable "debug_assert_adjacent: the token slices handed to BlockParser are contiguous sub-slices of the lexer's tiling (C04 token adjacency); the model keeps tokens as a list with their spans and does not re-check adjacency");
  (("parser/block_parser", "macro_rules!debug_assert_adjacent", KIndex,
    "w[0]"),
   Unreachable "debug_assert_adjacent: the token slices handed to BlockParser are contiguous sub-slices of the lexer's tiling (C04 token adjacency); the model keeps tokens as a list with their spans and does not re-check adjacency");
  (("parser/block_parser", "macro_rules!debug_assert_adjacent", KIndex,
    "w[1]"),
   Unreachable "debug_assert_adjacent: the token slices handed to BlockParser are contiguous sub-slices of the lexer's tiling (C04 token adjacency); the model keeps tokens as a list with their spans and does not re-check adjacency");
  (("parser/block_parser", "new", KMacro,
    "assert!(!tokens.is_empty())"),
   Site "Parser.site_bp_new" Parser.site_bp_new);
  (("parser/block_parser", "new", KMacro,
    "debug_assert!(tokens.first().unwrap().span.start()<input.len()&&tokens.last().unwrap().span.e..."),
   Unreachable "bounds of the block's tokens: token spans tile the input (C04), first/last exist after the assert! above");
  (("parser/block_parser", "new", KUnwrap,
    "tokens.first().unwrap()"),
   Unreachable "inside the debug_assert! that follows assert!(!tokens.is_empty()) in the same fn");
  (("parser/block_parser", "new", KUnwrap,
    "tokens.last().unwrap()"),
   Unreachable "inside the debug_assert! that follows assert!(!tokens.is_empty()) in the same fn");
  (("parser/block_parser", "new", KMacro,
    "debug_assert_adjacent!(tokens)"),
   Unreachable "debug_assert_adjacent: the token slices handed to BlockParser are contiguous sub-slices of the lexer's tiling (C04 token adjacency); the model keeps tokens as a list with their spans and does not re-check adjacency");
  (("parser/block_parser", "base_offset", KUnwrap,
    "self.tokens.first().unwrap()"),
   Unreachable "BlockParser::new asserted a non-empty token slice (site_bp_new) and tokens is never reassigned");
  (("parser/block_parser", "finish", KMacro,
    "assert_eq!(self.current, self.tokens.len())"),
   Site "Parser.site_bp_finish" Parser.site_bp_finish);
  (("parser/block_parser", "capture_slice", KIndex,
    "self.tokens[start..end]"),
   Unreachable "start and end are two readings of self.current, which only grows and is bounded by tokens.len(); the model returns the consumed tokens as a list");
  (("parser/block_parser", "token_str", KIndex,
    "self.input[token.span.range()]"),
   Unreachable "slice of the input at token spans: the model carries the text of every token (tstr) instead of slicing; token spans are in bounds and on char boundaries (C04 lexer theorems)");
  (("parser/block_parser", "slice_str", KMacro,
    "debug_assert_adjacent!(s)"),
   Unreachable "debug_assert_adjacent: the token slices handed to BlockParser are contiguous sub-slices of the lexer's tiling (C04 token adjacency); the model keeps tokens as a list with their spans and does not re-check adjacency");
  (("parser/block_parser", "slice_str", KUnwrap,
    "s.first().unwrap()"),
   Unreachable "guarded by the is_empty return just above in the same fn");
  (("parser/block_parser", "slice_str", KUnwrap,
    "s.last().unwrap()"),
   Unreachable "guarded by the is_empty return just above in the same fn");
  (("parser/block_parser", "slice_str", KIndex,
    "self.input[start..end]"),
   Unreachable "slice of the input at token spans: the model carries the text of every token (tstr) instead of slicing; token spans are in bounds and on char boundaries (C04 lexer theorems)");
  (("parser/block_parser", "text", KMacro,
    "debug_assert_adjacent!(tokens)"),
   Unreachable "debug_assert_adjacent: the token slices handed to BlockParser are contiguous sub-slices of the lexer's tiling (C04 token adjacency); the model keeps tokens as a list with their spans and does not re-check adjacency");
  (("parser/block_parser", "text", KIndex,
    "tokens[0]"),
   Unreachable "guarded by the is_empty return just above in the same fn (text_of matches on the list)");
  (("parser/block_parser", "text", KMacro,
    "assert_eq!(offset, start)"),
   Site "Parser.site_text_offset" Parser.site_text_offset);
  (("parser/block_parser", "text", KIndex,
    "tokens[0]"),
   Unreachable "guarded by the is_empty return just above in the same fn (text_of matches on the list)");
  (("parser/block_parser", "text", KIndex,
    "self.input[start..end]"),
   Unreachable "slice of the input at token spans: the model carries the text of every token (tstr) instead of slicing; token spans are in bounds and on char boundaries (C04 lexer theorems)");
  (("parser/block_parser", "text", KIndex,
    "self.input[token.span.range()]"),
   Unreachable "slice of the input at token spans: the model carries the text of every token (tstr) instead of slicing; token spans are in bounds and on char boundaries (C04 lexer theorems)");
  (("parser/block_parser", "text", KIndex,
    "self.input[start..end]"),
   Unreachable "slice of the input at token spans: the model carries the text of every token (tstr) instead of slicing; token spans are in bounds and on char boundaries (C04 lexer theorems)");
  (("parser/block_parser", "text", KIndex,
    "self.input[start..end]"),
   Unreachable "slice of the input at token spans: the model carries the text of every token (tstr) instead of slicing; token spans are in bounds and on char boundaries (C04 lexer theorems)");
  (("parser/block_parser", "text", KMacro,
    "debug_assert!(self.input[token.span.range()].starts_with('\\'))"),
   Site "Parser.site_escaped_len" Parser.site_escaped_len);
  (("parser/block_parser", "text", KIndex,
    "self.input[token.span.range()]"),
   Unreachable "slice of the input at token spans: the model carries the text of every token (tstr) instead of slicing; token spans are in bounds and on char boundaries (C04 lexer theorems)");
  (("parser/block_parser", "text", KIndex,
    "self.input[start..end]"),
   Unreachable "slice of the input at token spans: the model carries the text of every token (tstr) instead of slicing; token spans are in bounds and on char boundaries (C04 lexer theorems)");
  (("parser/block_parser", "parsed", KCall,
    "self.tokens.split_at(self.current)"),
   Unreachable "split_at(self.current): current <= tokens.len() is the invariant of next_token/until/consume_while/consume_rest; the model state holds the rest of the list (b_rest)");
  (("parser/block_parser", "rest", KCall,
    "self.tokens.split_at(self.current)"),
   Unreachable "split_at(self.current): current <= tokens.len() is the invariant of next_token/until/consume_while/consume_rest; the model state holds the rest of the list (b_rest)");
  (("parser/block_parser", "consume_rest", KArith,
    "self.current += r.len()"),
   Unreachable "current grows by the number of tokens taken from rest(): bounded by tokens.len() <= input length, no usize overflow; the model has no counter (b_rest)");
  (("parser/block_parser", "next_token", KArith,
    "self.current += 1"),
   Unreachable "current grows by the number of tokens taken from rest(): bounded by tokens.len() <= input length, no usize overflow; the model has no counter (b_rest)");
  (("parser/block_parser", "bump_any", KExpect,
    "self.next_token().expect()"),
   Site "Parser.site_bump_any" Parser.site_bump_any);
  (("parser/block_parser", "bump", KMacro,
    "assert_eq!(token.kind, expected)"),
   Site "Parser.site_bump" Parser.site_bump);
  (("parser/block_parser", "until", KIndex,
    "rest[..pos]"),
   Unreachable "pos comes from position() over rest or is rest.len(): in bounds; the model splits the list (until / consume_while)");
  (("parser/block_parser", "until", KArith,
    "self.current += pos"),
   Unreachable "current grows by the number of tokens taken from rest(): bounded by tokens.len() <= input length, no usize overflow; the model has no counter (b_rest)");
  (("parser/block_parser", "consume_while", KIndex,
    "rest[..pos]"),
   Unreachable "pos comes from position() over rest or is rest.len(): in bounds; the model splits the list (until / consume_while)");
  (("parser/block_parser", "consume_while", KArith,
    "self.current += pos"),
   Unreachable "current grows by the number of tokens taken from rest(): bounded by tokens.len() <= input length, no usize overflow; the model has no counter (b_rest)");
  (("parser/block_parser", "error", KMacro,
    "debug_assert!(error.is_error())"),
   Unreachable "every caller passes a diagnostic built by error!(..) (severity Error); the model keeps errors and warnings in one event list by code");
  (("parser/block_parser", "warn", KMacro,
    "debug_assert!(warn.is_warning())"),
   Unreachable "every caller passes a diagnostic built by warning!(..); the model keeps errors and warnings in one event list by code");
  (("parser/frontmatter", "parse_frontmatter", KIndex,
    "input[..fence_start]"),
   Unreachable "offsets returned by fences(): starts/ends of lines of the input, hence char boundaries in bounds; Model/Parser.v splits the character list at the fence lines (Proofs/ParserFM.v)");
  (("parser/frontmatter", "parse_frontmatter", KIndex,
    "input[yaml_start..yaml_end]"),
   Unreachable "offsets returned by fences(): starts/ends of lines of the input, hence char boundaries in bounds; Model/Parser.v splits the character list at the fence lines (Proofs/ParserFM.v)");
  (("parser/frontmatter", "parse_frontmatter", KIndex,
    "input[cooklang_start..]"),
   Unreachable "offsets returned by fences(): starts/ends of lines of the input, hence char boundaries in bounds; Model/Parser.v splits the character list at the fence lines (Proofs/ParserFM.v)");
  (("parser/frontmatter", "lines_with_offset", KArith,
    "offset += l.len()"),
   Unreachable "sum of the line lengths of the input: bounded by input.len()");
  (("parser/mod", "next_block", KIndex,
    "self.block[end-1]"),
   Site "Parser.site_trim_index" Parser.site_trim_index);
  (("parser/mod", "next_block", KArith,
    "end - 1"),
   Site "Parser.site_trim_index" Parser.site_trim_index);
  (("parser/mod", "next_block", KArith,
    "end -= 1"),
   Unreachable "guarded by the `if end <= start { break }` just above: end > start >= 0");
  (("parser/mod", "next_block", KIndex,
    "self.block[start..end]"),
   Unreachable "start <= end <= block.len(): both are readings of self.block.len() and the loop only lowers end down to start; the model trims the list");
  (("parser/mod", "parse_block", KMacro,
    "unreachable!()"),
   Unreachable "let-else on the event metadata_entry just built: it only returns Event::Metadata; the model's metadata_entry returns the key/value pair directly");
  (("parser/mod", "parse_multiline_block", KMacro,
    "debug_assert!(bp.tokens().last().map(|t|t.kind!=T![newline]).unwrap_or(true))"),
   Unreachable "the block splitter trims trailing newline tokens (next_block) before the block parser sees them: Proofs/ParserSplit.v; the model does not re-check");
  (("parser/mod", "tokens_span", KMacro,
    "debug_assert!(!tokens.is_empty())"),
   Unreachable "tokens_span is only called on bp.tokens() / non-empty consumed slices (site_bp_new guarantees a non-empty block); the model computes spans from non-empty lists, the empty case is a match arm returning the offset");
  (("parser/mod", "tokens_span", KUnwrap,
    "tokens.first().unwrap()"),
   Unreachable "tokens_span is only called on bp.tokens() / non-empty consumed slices (site_bp_new guarantees a non-empty block); the model computes spans from non-empty lists, the empty case is a match arm returning the offset");
  (("parser/mod", "tokens_span", KUnwrap,
    "tokens.last().unwrap()"),
   Unreachable "tokens_span is only called on bp.tokens() / non-empty consumed slices (site_bp_new guarantees a non-empty block); the model computes spans from non-empty lists, the empty case is a match arm returning the offset");
  (("parser/quantity", "parse_quantity", KMacro,
    "assert!(!tokens.is_empty())"),
   Site "Parser.site_qty_empty" Parser.site_qty_empty);
  (("parser/quantity", "parse_regular_quantity", KUnwrap,
    "unit_separator.unwrap()"),
   Unreachable "unit_separator and unit come from the same Option by unzip(): Some together, and this is inside `if let Some(unit_text) = &unit`");
  (("parser/quantity", "parse_advanced_quantity", KUnwrap,
    "value_tokens.last().unwrap()"),
   Unreachable "right operand of `is_empty() ||`: the slice is non-empty");
  (("parser/quantity", "parse_advanced_quantity", KUnwrap,
    "value_tokens.iter().rposition(|t|!matches!(t.kind, T![ws]|T![block comment])).unwrap()"),
   Site "Parser.site_adv_rposition" Parser.site_adv_rposition);
  (("parser/quantity", "parse_advanced_quantity", KIndex,
    "value_tokens[..=end_pos]"),
   Unreachable "end_pos is a position of the slice (rposition): ..=end_pos is in bounds");
  (("parser/quantity", "parse_advanced_quantity", KUnwrap,
    "value_tokens.first().unwrap()"),
   Unreachable "value_tokens[..=end_pos] has at least one element");
  (("parser/quantity", "parse_advanced_quantity", KUnwrap,
    "value_tokens.last().unwrap()"),
   Unreachable "right operand of `is_empty() ||`: the slice is non-empty");
  (("parser/quantity", "parse_advanced_quantity", KUnwrap,
    "unit_tokens.first().unwrap()"),
   Unreachable "guarded by the `unit_tokens.is_empty()` return above in the same fn");
  (("parser/quantity", "range_value", KCall,
    "tokens.split_at(mid)"),
   Unreachable "mid is a position of tokens (position()?): split_at(mid) is in bounds");
  (("parser/quantity", "range_value", KUnwrap,
    "end.split_first().unwrap()"),
   Unreachable "end starts at the `-` token found by position(): non-empty");
  (("parser/quantity", "macro_rules!unwrap_numeric", KMacro,
    "unreachable!(<str>)"),
   Unreachable "numeric_value returns Some(r.map(Value::Number)): an Ok is always Value::Number; the model's numeric_value returns a number");
  (("parser/quantity", "trim_tokens", KIndex,
    "s[0..0]"),
   Unreachable "the empty range 0..0 is in bounds of any slice");
  (("parser/quantity", "trim_tokens", KUnwrap,
    "s.iter().rposition(not_ws_comment).unwrap()"),
   Unreachable "position() found an element satisfying the same predicate, so rposition() does too");
  (("parser/quantity", "trim_tokens", KIndex,
    "s[from..=to]"),
   Unreachable "from and to are positions of s with from <= to (first and last match of one predicate)");
  (("parser/quantity", "mixed_num", KMacro,
    "unreachable!()"),
   Unreachable "frac() only builds Number::Fraction; the model's frac returns numerator and denominator");
  (("parser/quantity", "int", KMacro,
    "assert_eq!(tok.kind, T![int])"),
   Unreachable "int() is called from numeric_value's match arms on slices whose pattern fixes the kind T![int]; the model matches on the kind in the same place");
  (("parser/step", "modifiers", KIndex,
    "bp.tokens()[start..bp.current]"),
   Unreachable "start is an earlier reading of bp.current, which only grows and stays <= tokens.len()");
  (("parser/step", "parse_modifiers", KMacro,
    "panic!(<str>)"),
   Site "Parser.site_mod_token" Parser.site_mod_token);
  (("parser/step", "parse_intermediate_ref_data", KExpect,
    "tokens.position(|t|t.kind==T![')']).expect()"),
   Site "Parser.site_inter_paren" Parser.site_inter_paren);
  (("parser/step", "parse_intermediate_ref_data", KIndex,
    "slice[..=end_pos]"),
   Unreachable "end_pos is a position in the iterator over the same slice");
  (("parser/step", "parse_intermediate_ref_data", KIndex,
    "slice[1..slice.len()-1]"),
   Unreachable "slice starts with `(` (checked by matches! at the top) and ends with the `)` found: length >= 2");
  (("parser/step", "parse_intermediate_ref_data", KArith,
    "slice.len() - 1"),
   Unreachable "slice has at least the two parentheses: len() >= 2");
  (("parser/step", "parse_alias", KCall,
    "tokens.split_at(alias_sep)"),
   Unreachable "alias_sep is a position of tokens (position())");
  (("parser/step", "parse_alias", KUnwrap,
    "alias_tokens.split_first().unwrap()"),
   Unreachable "alias_tokens starts at the `|` token found by position(): non-empty");
  (("parser/step", "cookware", KExpect,
    "modifiers_tokens.iter().find(|t|t.kind==T![@]).map(|t|t.span).expect()"),
   Site "Parser.site_recipe_tok" Parser.site_recipe_tok);
  (("parser/step", "check_modifiers", KMacro,
    "assert_ne!(container, INGREDIENT)"),
   Unreachable "container is a &'static str constant at every call site: timer() passes TIMER, cookware() passes COOKWARE only to functions that do not assert it; the model has one function per container");
  (("parser/step", "check_modifiers", KMacro,
    "assert_ne!(container, COOKWARE)"),
   Unreachable "container is a &'static str constant at every call site: timer() passes TIMER, cookware() passes COOKWARE only to functions that do not assert it; the model has one function per container");
  (("parser/step", "check_intermediate_data", KMacro,
    "assert_ne!(container, INGREDIENT)"),
   Unreachable "container is a &'static str constant at every call site: timer() passes TIMER, cookware() passes COOKWARE only to functions that do not assert it; the model has one function per container");
  (("parser/step", "check_alias", KMacro,
    "assert_ne!(container, INGREDIENT)"),
   Unreachable "container is a &'static str constant at every call site: timer() passes TIMER, cookware() passes COOKWARE only to functions that do not assert it; the model has one function per container");
  (("parser/step", "check_alias", KMacro,
    "assert_ne!(container, COOKWARE)"),
   Unreachable "container is a &'static str constant at every call site: timer() passes TIMER, cookware() passes COOKWARE only to functions that do not assert it; the model has one function per container");
  (("parser/step", "check_alias", KIndex,
    "name_tokens[sep]"),
   Unreachable "sep is a position of name_tokens (position())");
  (("parser/step", "check_alias", KUnwrap,
    "name_tokens.last().unwrap()"),
   Unreachable "name_tokens holds the element at sep: non-empty");
  (("parser/step", "check_note", KMacro,
    "assert_ne!(container, INGREDIENT)"),
   Unreachable "container is a &'static str constant at every call site: timer() passes TIMER, cookware() passes COOKWARE only to functions that do not assert it; the model has one function per container");
  (("parser/step", "check_note", KMacro,
    "assert_ne!(container, COOKWARE)"),
   Unreachable "container is a &'static str constant at every call site: timer() passes TIMER, cookware() passes COOKWARE only to functions that do not assert it; the model has one function per container");
  (("parser/step", "check_note", KMacro,
    "assert!(bp.with_recover(|bp|{let start=bp.consume(T!['('])?.span.start();let _=bp.until(|t|t=..."),
   Unreachable "the closure passed to with_recover ends in None::<()> on every path: with_recover returns it; inside it bump(T![')']) is Parser.site_bump (Model/Parser.v check_note)");
  (("parser/token_stream", "offset", KArith,
    "self.consumed += offset"),
   Unreachable "consumed is the byte offset into the input: sum of token lengths <= input.len(); Model/Lexer.v carries the offset as an unbounded N");
  (("parser/token_stream", "next", KArith,
    "self.consumed += t.len as usize"),
   Unreachable "consumed is the byte offset into the input: sum of token lengths <= input.len(); Model/Lexer.v carries the offset as an unbounded N");
  (("analysis/event_consumer", "parse_events", KMacro,
    "assert_eq!(kind, BlockKind::Step)"),
   Site "Analysis.site_end_kind_step" Analysis.site_end_kind_step);
  (("analysis/event_consumer", "parse_events", KMacro,
    "assert!(kind==BlockKind::Text||self.define_mode==DefineMode::Text)"),
   Site "Analysis.site_end_kind_text" Analysis.site_end_kind_text);
  (("analysis/event_consumer", "parse_events", KMacro,
    "panic!(<str>)"),
   Site "Analysis.site_end_without_start" Analysis.site_end_without_start);
  (("analysis/event_consumer", "parse_events", KArith,
    "self.step_counter += 1"),
   Site "Analysis.site_step_counter_overflow" Analysis.site_step_counter_overflow);
  (("analysis/event_consumer", "parse_events", KMacro,
    "panic!(<str>)"),
   Site "Analysis.site_content_outside_block" Analysis.site_content_outside_block);
  (("analysis/event_consumer", "process_frontmatter", KUnwrap,
    "key.as_str().unwrap()"),
   Unmodelled "metadata map, standard-key checks and their warnings are dropped by Model/Analysis.v (header: Dropped); exercised by the monitor under catch_unwind only");
  (("analysis/event_consumer", "metadata", KIndex,
    "key_t[1..key_t.len()-1]"),
   Unmodelled "metadata map, standard-key checks and their warnings are dropped by Model/Analysis.v (header: Dropped); exercised by the monitor under catch_unwind only");
  (("analysis/event_consumer", "metadata", KArith,
    "key_t.len() - 1"),
   Unmodelled "metadata map, standard-key checks and their warnings are dropped by Model/Analysis.v (header: Dropped); exercised by the monitor under catch_unwind only");
  (("analysis/event_consumer", "metadata", KCall,
    "self.content.metadata.map.insert(serde_yaml::Value::String(key_t.into_owned()), serde_yaml::V..."),
   Unmodelled "metadata map, standard-key checks and their warnings are dropped by Model/Analysis.v (header: Dropped); exercised by the monitor under catch_unwind only");
  (("analysis/event_consumer", "metadata", KCall,
    "self.content.metadata.map.insert(yaml_key, yaml_value)"),
   Unmodelled "metadata map, standard-key checks and their warnings are dropped by Model/Analysis.v (header: Dropped); exercised by the monitor under catch_unwind only");
  (("analysis/event_consumer", "metadata", KUnwrap,
    "self.content.metadata.map.get(key_t.as_ref()).unwrap()"),
   Unmodelled "metadata map, standard-key checks and their warnings are dropped by Model/Analysis.v (header: Dropped); exercised by the monitor under catch_unwind only");
  (("analysis/event_consumer", "metadata", KCall,
    "self.locations.metadata.insert(sp_key, (key.clone(), value.clone()))"),
   Unmodelled "metadata map, standard-key checks and their warnings are dropped by Model/Analysis.v (header: Dropped); exercised by the monitor under catch_unwind only");
  (("analysis/event_consumer", "time_override_check", KMacro,
    "assert!(!keys.is_empty())"),
   Unmodelled "metadata map, standard-key checks and their warnings are dropped by Model/Analysis.v (header: Dropped); exercised by the monitor under catch_unwind only");
  (("analysis/event_consumer", "time_override_check", KIndex,
    "locs(&[new])[0]"),
   Unmodelled "metadata map, standard-key checks and their warnings are dropped by Model/Analysis.v (header: Dropped); exercised by the monitor under catch_unwind only");
  (("analysis/event_consumer", "time_override_check", KMacro,
    "panic!(<str>)"),
   Unmodelled "metadata map, standard-key checks and their warnings are dropped by Model/Analysis.v (header: Dropped); exercised by the monitor under catch_unwind only");
  (("analysis/event_consumer", "time_override_check", KCall,
    "self.locations.metadata.remove(k)"),
   Unmodelled "metadata map, standard-key checks and their warnings are dropped by Model/Analysis.v (header: Dropped); exercised by the monitor under catch_unwind only");
  (("analysis/event_consumer", "time_override_check", KUnwrap,
    "overriden.next().unwrap()"),
   Unmodelled "metadata map, standard-key checks and their warnings are dropped by Model/Analysis.v (header: Dropped); exercised by the monitor under catch_unwind only");
  (("analysis/event_consumer", "in_step", KMacro,
    "panic!(<str>)"),
   Site "Analysis.Panic_547" 547%N);
  (("analysis/event_consumer", "in_text", KMacro,
    "assert_eq!(self.define_mode, DefineMode::Text)"),
   Site "Analysis.site_nontext_in_text" Analysis.site_nontext_in_text);
  (("analysis/event_consumer", "in_text", KMacro,
    "unreachable!()"),
   Unreachable "inner match on the same ev inside the arm `Ingredient | Cookware | Timer`: the model's comp takes the span of the three cases directly");
  (("analysis/event_consumer", "in_text", KIndex,
    "self.input[span.range()]"),
   Site "Analysis.site_in_text_slice" Analysis.site_in_text_slice);
  (("analysis/event_consumer", "in_text", KIndex,
    "src[pos..end]"),
   Unreachable "pos..end are the token boundaries the lexer cursor reports for src: a tiling of src (C04 lexer theorems); the model strips comments on the character list (strip_comments)");
  (("analysis/event_consumer", "in_text", KMacro,
    "panic!(<str>)"),
   Site "Analysis.Panic_572" 572%N);
  (("analysis/event_consumer", "ingredient", KMacro,
    "assert!(new_igr.modifiers().contains(Modifiers::REF))"),
   Site "Analysis.site_inter_without_ref" Analysis.site_inter_without_ref);
  (("analysis/event_consumer", "ingredient", KMacro,
    "assert!(ingredient.intermediate_data.is_none())"),
   Unreachable "else-branch of `if let Some(inter_data) = ingredient.intermediate_data`: it is None here (the model matches on it once)");
  (("analysis/event_consumer", "ingredient", KIndex,
    "self.content.ingredients[references_to]"),
   Site "Analysis.site_index_definition" Analysis.site_index_definition);
  (("analysis/event_consumer", "ingredient", KIndex,
    "self.locations.ingredients[references_to]"),
   Site "Analysis.site_index_definition" Analysis.site_index_definition);
  (("analysis/event_consumer", "ingredient", KMacro,
    "assert!(definition.relation.is_definition())"),
   Site "Analysis.site_assert_is_definition" Analysis.site_assert_is_definition);
  (("analysis/event_consumer", "ingredient", KIndex,
    "self.content.ingredients[index]"),
   Site "Analysis.site_units_index" Analysis.site_units_index);
  (("analysis/event_consumer", "ingredient", KIndex,
    "self.locations.ingredients[index]"),
   Site "Analysis.site_units_index" Analysis.site_units_index);
  (("analysis/event_consumer", "ingredient", KUnwrap,
    "self.locations.ingredients[index].quantity.as_ref().unwrap()"),
   Unreachable "locations.ingredients[index].quantity is Some exactly when content.ingredients[index].quantity is (filter_map above kept only those); the two tables are pushed together");
  (("analysis/event_consumer", "ingredient", KUnwrap,
    "located_ingredient.quantity.as_ref().unwrap()"),
   Unreachable "located_* mirrors the component it was built from field by field (Located<..> of the same event): quantity/unit is Some there exactly when the value just matched is Some; the model keeps one record per component, so there is no second Option");
  (("analysis/event_consumer", "ingredient", KExpect,
    "definition.relation.is_defined_in_step().expect()"),
   Unreachable "is_defined_in_step() is Some for a definition, and assert!(definition.relation.is_definition()) (site_assert_is_definition) precedes it in the same branch");
  (("analysis/event_consumer", "ingredient", KUnwrap,
    "ingredient.quantity.unwrap()"),
   Unreachable "second operand of `ingredient.quantity.is_some() && ..` in the same condition");
  (("analysis/event_consumer", "ingredient", KUnwrap,
    "located_ingredient.quantity.as_ref().unwrap()"),
   Unreachable "located_* mirrors the component it was built from field by field (Located<..> of the same event): quantity/unit is Some there exactly when the value just matched is Some; the model keeps one record per component, so there is no second Option");
  (("analysis/event_consumer", "ingredient", KUnwrap,
    "definition_location.quantity.as_ref().unwrap()"),
   Unreachable "inside `if let Some((ref_q, def_q)) = new_igr.quantity.zip(definition.quantity)`: the definition has a quantity and its location record mirrors it");
  (("analysis/event_consumer", "ingredient", KArith,
    "self.content.ingredients.len() - 1"),
   Unreachable "len() - 1 right after a push: the vector is non-empty; the model returns length l of the list before the push");
  (("analysis/event_consumer", "resolve_intermediate_ref", KMacro,
    "assert!(!inter_data.val.is_negative())"),
   Site "Analysis.site_inter_negative" Analysis.site_inter_negative);
  (("analysis/event_consumer", "resolve_intermediate_ref", KArith,
    "val - 1"),
   Unreachable "val is a u32 and the `if val == 0 { return Err(..) }` block above returns on both modes: val >= 1 here; the model computes on Z");
  (("analysis/event_consumer", "resolve_intermediate_ref", KUnwrap,
    "index.unwrap()"),
   Unreachable "guarded by the `if index.is_none() { return .. }` just above in the same arm");
  (("analysis/event_consumer", "resolve_intermediate_ref", KArith,
    "val - 1"),
   Unreachable "val is a u32 and the `if val == 0 { return Err(..) }` block above returns on both modes: val >= 1 here; the model computes on Z");
  (("analysis/event_consumer", "resolve_intermediate_ref", KUnwrap,
    "index.unwrap()"),
   Unreachable "guarded by the `if index.is_none() { return .. }` just above in the same arm");
  (("analysis/event_consumer", "resolve_intermediate_ref", KArith,
    "val - 1"),
   Unreachable "val is a u32 and the `if val == 0 { return Err(..) }` block above returns on both modes: val >= 1 here; the model computes on Z");
  (("analysis/event_consumer", "cookware", KIndex,
    "self.content.cookware[references_to]"),
   Site "Analysis.site_index_definition" Analysis.site_index_definition);
  (("analysis/event_consumer", "cookware", KIndex,
    "self.locations.cookware[references_to]"),
   Site "Analysis.site_index_definition" Analysis.site_index_definition);
  (("analysis/event_consumer", "cookware", KMacro,
    "assert!(definition.relation.is_definition())"),
   Site "Analysis.site_assert_is_definition" Analysis.site_assert_is_definition);
  (("analysis/event_consumer", "cookware", KExpect,
    "definition.relation.is_defined_in_step().expect()"),
   Unreachable "is_defined_in_step() is Some for a definition, and assert!(definition.relation.is_definition()) precedes it in the same branch");
  (("analysis/event_consumer", "cookware", KUnwrap,
    "located_cookware.quantity.as_ref().unwrap()"),
   Unreachable "located_* mirrors the component it was built from field by field (Located<..> of the same event): quantity/unit is Some there exactly when the value just matched is Some; the model keeps one record per component, so there is no second Option");
  (("analysis/event_consumer", "cookware", KUnwrap,
    "located_cookware.quantity.as_ref().unwrap()"),
   Unreachable "located_* mirrors the component it was built from field by field (Located<..> of the same event): quantity/unit is Some there exactly when the value just matched is Some; the model keeps one record per component, so there is no second Option");
  (("analysis/event_consumer", "cookware", KUnwrap,
    "definition_location.quantity.as_ref().unwrap()"),
   Unreachable "inside the `if let Some(..) = ..zip(definition.quantity)`: the definition has a quantity and its location record mirrors it");
  (("analysis/event_consumer", "cookware", KArith,
    "self.content.cookware.len() - 1"),
   Unreachable "len() - 1 right after a push: the vector is non-empty; the model returns length l of the list before the push");
  (("analysis/event_consumer", "timer", KUnwrap,
    "located_timer.quantity.as_ref().unwrap()"),
   Unreachable "located_* mirrors the component it was built from field by field (Located<..> of the same event): quantity/unit is Some there exactly when the value just matched is Some; the model keeps one record per component, so there is no second Option");
  (("analysis/event_consumer", "timer", KUnwrap,
    "located_quantity.unit.as_ref().unwrap()"),
   Unreachable "located_* mirrors the component it was built from field by field (Located<..> of the same event): quantity/unit is Some there exactly when the value just matched is Some; the model keeps one record per component, so there is no second Option");
  (("analysis/event_consumer", "timer", KArith,
    "self.content.timers.len() - 1"),
   Unreachable "len() - 1 right after a push: the vector is non-empty; the model returns length l of the list before the push");
  (("analysis/event_consumer", "resolve_reference", KIndex,
    "all[references_to]"),
   Site "Analysis.site_index_definition" Analysis.site_index_definition);
  (("analysis/event_consumer", "resolve_reference", KMacro,
    "assert!(!referenced.modifiers().contains(Modifiers::REF))"),
   Site "Analysis.site_assert_target_not_ref" Analysis.site_assert_target_not_ref);
  (("analysis/event_consumer", "set_referenced_from", KIndex,
    "all[references_to]"),
   Site "Analysis.site_index_definition" Analysis.site_index_definition);
  (("analysis/event_consumer", "set_referenced_from", KMacro,
    "panic!(<str>)"),
   Site "Analysis.site_assert_is_definition" Analysis.site_assert_is_definition);
  (("analysis/event_consumer", "set_referenced_from", KIndex,
    "all[references_to]"),
   Site "Analysis.site_index_definition" Analysis.site_index_definition);
  (("analysis/event_consumer", "set_referenced_from", KMacro,
    "panic!(<str>)"),
   Site "Analysis.site_assert_is_definition" Analysis.site_assert_is_definition);
  (("analysis/event_consumer", "eat_word", KIndex,
    "text[*i..]"),
   Unmodelled "find_inline_quantity and its helpers are the oracle find_iq of Model/Analysis.v (hypothesis iq_shrinks); exercised by the correspondence of C06 and the monitor only");
  (("analysis/event_consumer", "eat_word", KIndex,
    "s[..offset]"),
   Unmodelled "find_inline_quantity and its helpers are the oracle find_iq of Model/Analysis.v (hypothesis iq_shrinks); exercised by the correspondence of C06 and the monitor only");
  (("analysis/event_consumer", "eat_word", KArith,
    "i += offset"),
   Unmodelled "find_inline_quantity and its helpers are the oracle find_iq of Model/Analysis.v (hypothesis iq_shrinks); exercised by the correspondence of C06 and the monitor only");
  (("analysis/event_consumer", "eat_whitespace", KIndex,
    "text[*i..]"),
   Unmodelled "find_inline_quantity and its helpers are the oracle find_iq of Model/Analysis.v (hypothesis iq_shrinks); exercised by the correspondence of C06 and the monitor only");
  (("analysis/event_consumer", "eat_whitespace", KIndex,
    "text[*i..*i+offset]"),
   Unmodelled "find_inline_quantity and its helpers are the oracle find_iq of Model/Analysis.v (hypothesis iq_shrinks); exercised by the correspondence of C06 and the monitor only");
  (("analysis/event_consumer", "eat_whitespace", KArith,
    "i += offset"),
   Unmodelled "find_inline_quantity and its helpers are the oracle find_iq of Model/Analysis.v (hypothesis iq_shrinks); exercised by the correspondence of C06 and the monitor only");
  (("analysis/event_consumer", "find_inline_quantity", KIndex,
    "text[i..]"),
   Unmodelled "find_inline_quantity and its helpers are the oracle find_iq of Model/Analysis.v (hypothesis iq_shrinks); exercised by the correspondence of C06 and the monitor only");
  (("analysis/event_consumer", "find_inline_quantity", KArith,
    "i += offset"),
   Unmodelled "find_inline_quantity and its helpers are the oracle find_iq of Model/Analysis.v (hypothesis iq_shrinks); exercised by the correspondence of C06 and the monitor only");
  (("analysis/event_consumer", "find_inline_quantity", KIndex,
    "text.as_bytes()[i-1]"),
   Unmodelled "find_inline_quantity and its helpers are the oracle find_iq of Model/Analysis.v (hypothesis iq_shrinks); exercised by the correspondence of C06 and the monitor only");
  (("analysis/event_consumer", "find_inline_quantity", KArith,
    "i - 1"),
   Unmodelled "find_inline_quantity and its helpers are the oracle find_iq of Model/Analysis.v (hypothesis iq_shrinks); exercised by the correspondence of C06 and the monitor only");
  (("analysis/event_consumer", "find_inline_quantity", KIndex,
    "text[..i-1]"),
   Unmodelled "find_inline_quantity and its helpers are the oracle find_iq of Model/Analysis.v (hypothesis iq_shrinks); exercised by the correspondence of C06 and the monitor only");
  (("analysis/event_consumer", "find_inline_quantity", KArith,
    "i - 1"),
   Unmodelled "find_inline_quantity and its helpers are the oracle find_iq of Model/Analysis.v (hypothesis iq_shrinks); exercised by the correspondence of C06 and the monitor only");
  (("analysis/event_consumer", "find_inline_quantity", KIndex,
    "text[..i]"),
   Unmodelled "find_inline_quantity and its helpers are the oracle find_iq of Model/Analysis.v (hypothesis iq_shrinks); exercised by the correspondence of C06 and the monitor only");
  (("analysis/event_consumer", "find_inline_quantity", KCall,
    "w1.split_at(mid)"),
   Unmodelled "find_inline_quantity and its helpers are the oracle find_iq of Model/Analysis.v (hypothesis iq_shrinks); exercised by the correspondence of C06 and the monitor only");
  (("analysis/event_consumer", "find_inline_quantity", KMacro,
    "debug_assert!(prev<i)"),
   Unmodelled "find_inline_quantity and its helpers are the oracle find_iq of Model/Analysis.v (hypothesis iq_shrinks); exercised by the correspondence of C06 and the monitor only");
  (("analysis/event_consumer", "find_inline_quantity", KIndex,
    "text[i..]"),
   Unmodelled "find_inline_quantity and its helpers are the oracle find_iq of Model/Analysis.v (hypothesis iq_shrinks); exercised by the correspondence of C06 and the monitor only");
  (("analysis/event_consumer", "yaml_find_key_position", KArith,
    "offset += line.len()"),
   Unmodelled "yaml_find_key_position locates a key for a warning label; warnings are dropped by Model/Analysis.v (modelled separately for C04: checks/c04_labels.py); monitor only");
  (("analysis/event_consumer", "yaml_find_key_position", KIndex,
    "k[start..]"),
   Unmodelled "yaml_find_key_position locates a key for a warning label; warnings are dropped by Model/Analysis.v (modelled separately for C04: checks/c04_labels.py); monitor only");
  (("analysis/event_consumer", "parse_reference", KUnwrap,
    "components.pop().unwrap()"),
   Unreachable "the name starts with ./ or ../ (or the backslash forms, replaced by /): split('/') yields at least two items, one is left after skip(1); the model splits the same way");
  (("text", "span", KUnwrap,
    "fragments.first().unwrap()"),
   Unreachable "arm TextData::Fragmented: that variant is only built by append_fragment from a Single plus one more fragment and never shrinks; the model's text_span matches on the list");
  (("text", "span", KUnwrap,
    "fragments.last().unwrap()"),
   Unreachable "arm TextData::Fragmented: that variant is only built by append_fragment from a Single plus one more fragment and never shrinks; the model's text_span matches on the list");
  (("text", "append_fragment", KMacro,
    "assert!(self.span().end()<=fragment.offset)"),
   Site "PText.site_text_append" PText.site_text_append);
  (("text", "text", KArith,
    "s += text"),
   Unreachable "`s += text` on a Cow<str>: string concatenation, not integer arithmetic (listed by the token-level over-approximation)");
  (("text", "fmt", KIndex,
    "fragments[0]"),
   Unreachable "match arm for fragments.len() == 1 (Debug formatting; not on the parse path)");
  (("span", "len", KArith,
    "self.end - self.start"),
   Unreachable "Span::new keeps start <= end for every span the parser builds (C04_event_spans_ok: span_ok); the models compute on unbounded N");
  (("error", "push", KMacro,
    "debug_assert!(self.severity.is_none()||self.severity.is_some_and(|s|err.severity==s))"),
   Unmodelled "diagnostics buffer and report rendering (src/error.rs) are outside the three models; write_report is run under catch_unwind by the monitor (c04:render)");
  (("error", "error", KMacro,
    "debug_assert_eq!(w.severity, Severity::Error)"),
   Unmodelled "diagnostics buffer and report rendering (src/error.rs) are outside the three models; write_report is run under catch_unwind by the monitor (c04:render)");
  (("error", "warn", KMacro,
    "debug_assert_eq!(w.severity, Severity::Warning)"),
   Unmodelled "diagnostics buffer and report rendering (src/error.rs) are outside the three models; write_report is run under catch_unwind by the monitor (c04:render)");
  (("error", "set_severity", KMacro,
    "debug_assert!(severity.is_none()||severity.is_some_and(|s|self.buf.iter().all(|e|e.severity==..."),
   Unmodelled "diagnostics buffer and report rendering (src/error.rs) are outside the three models; write_report is run under catch_unwind by the monitor (c04:render)");
  (("error", "into_result", KUnwrap,
    "self.output.unwrap()"),
   Unmodelled "diagnostics buffer and report rendering (src/error.rs) are outside the three models; write_report is run under catch_unwind by the monitor (c04:render)");
  (("error", "unwrap_output", KUnwrap,
    "self.output.unwrap()"),
   Unmodelled "diagnostics buffer and report rendering (src/error.rs) are outside the three models; write_report is run under catch_unwind by the monitor (c04:render)");
  (("error", "next", KIndex,
    "Self::COLORS[self.0]"),
   Unmodelled "diagnostics buffer and report rendering (src/error.rs) are outside the three models; write_report is run under catch_unwind by the monitor (c04:render)");
  (("error", "next", KArith,
    "Self::COLORS.len() - 1"),
   Unmodelled "diagnostics buffer and report rendering (src/error.rs) are outside the three models; write_report is run under catch_unwind by the monitor (c04:render)");
  (("error", "next", KArith,
    "self.0 += 1"),
   Unmodelled "diagnostics buffer and report rendering (src/error.rs) are outside the three models; write_report is run under catch_unwind by the monitor (c04:render)");
  (("error", "write_report", KArith,
    "core::cmp::max(w, 1) - sub"),
   Unmodelled "diagnostics buffer and report rendering (src/error.rs) are outside the three models; write_report is run under catch_unwind by the monitor (c04:render)")
].

(* sites of the models that stand for no expression of the current source *)
Definition model_only : list (string * string) := [
  ("Parser.site_fuel",
   "model only: the fuel of the model's loops ran out (the Rust loops have no counter); never reached: C03_events_total");
  ("Parser.site_label_underflow",
   "the `start - 1` of the note label before the repair of check_note (p_note_label_old); the current code has no subtraction there, the model keeps the guard for the _refuted theorem about the old code");
  ("Analysis.site_iq_fuel",
   "model only: the find_iq oracle did not shrink the text (hypothesis iq_shrinks of C03_analyse_total)")
].

Definition is_site (ms : string * N) (t : treatment) : bool :=
  match t with
  | Site nm n => String.eqb nm (fst ms) && N.eqb n (snd ms)
  | _ => false
  end.

(* every site of the models is hit by the table or declared model-only *)
Definition model_sites_accounted : bool :=
  forallb (fun ms => existsb (fun row => is_site ms (snd row)) panic_table
                     || existsb (fun mo => String.eqb (fst mo) (fst ms)) model_only)
          PanicSites.model_sites.

(* every [Site] row names a site of the models, with the value it has there; every model-only name exists
   and is not the image of a row *)
Definition table_sites_exist : bool :=
  forallb (fun row => match snd row with
                      | Site _ _ => existsb (fun ms => is_site ms (snd row)) PanicSites.model_sites
                      | _ => true
                      end) panic_table
  && forallb (fun mo => existsb (fun ms => String.eqb (fst mo) (fst ms)) PanicSites.model_sites
                        && negb (existsb (fun row => match snd row with
                                                     | Site nm _ => String.eqb nm (fst mo)
                                                     | _ => false
                                                     end) panic_table)) model_only.

Definition count_sites : nat :=
  List.length (filter (fun row => match snd row with Site _ _ => true | _ => false end) panic_table).
Definition count_unreachable : nat :=
  List.length (filter (fun row => match snd row with Unreachable _ => true | _ => false end) panic_table).
Definition count_unmodelled : nat :=
  List.length (filter (fun row => match snd row with Unmodelled _ => true | _ => false end) panic_table).
