(* How the models treat the potential panic sites of the parse path (for C03).

   Gen/PanicSites.v is regenerated from /repo/src on every run of the C03 check (gen/gen_panics.py).  PINNED
   (C03_panic_inventory) is [PanicSites.panic_keys]: for every (file stem, enclosing fn) of the non-test code of
   src/lexer, src/parser, src/analysis, src/text.rs, src/span.rs, src/located.rs, src/error.rs, src/lib.rs the
   NUMBER of sites of every strong kind - each panic!/unreachable!/todo!/unimplemented!/assert*!/debug_assert*!
   macro by name, .unwrap(), .expect(..), and std calls that panic on a bad argument by callee - without any
   expression text, so that rewriting an expression is harmless while a new unwrap/assert/panic is not.
   [group_table] gives, for each pinned group, one treatment per site of the group (in source order):

     Site name n      the site is an explicit [Panic n] outcome of the models: [name] is the `Definition site_*`
                      (or the literal `Panic n`) of Model/PText.v, Model/Parser.v or Model/Analysis.v that stands
                      for it; that it is never reached is what C03_events_total / C03_analyse_total /
                      C03_parse_total prove;
     Unreachable why  the model has no outcome for it: the translation discharges it structurally (a match on a
                      list where the code unwraps after a length check, one record where the code keeps two
                      parallel ones, ...); [why] states the reason;
     Unmodelled why   the enclosing function is outside the models (an oracle, a dropped feature, report
                      rendering): only the run-time monitor (catch_unwind around every consumer) and the
                      correspondence runs exercise it.

   The [why] strings are DOCUMENTATION of a modelling decision read off the source by hand; nothing here proves
   them (what ties the models to the code is the correspondence run of every check).  What IS checked, in
   Properties/C03.v:
     C03_panic_table_covers      map fst group_table = PanicSites.panic_keys, and every group has exactly as many
                                 treatments as sites: every pinned site of the source is accounted for;
     C03_table_sites_exist       every [Site name n] names a site the models really define, with its value
                                 ([PanicSites.model_sites] is read from the Model/*.v files by the generator and
                                 refers to the constants themselves);
     C03_model_sites_accounted   conversely every site of the models is the image of a pinned site, or is listed
                                 in [unpinned_sites] (it stands for an index / arithmetic expression, which is not
                                 pinned) or in [model_only] (no counterpart in the source).

   Index / slice expressions (KIndex) and integer updates / subtractions (KArith) are NOT pinned: a token-level
   list of them changes with every harmless rewrite; their panics are covered by the model's own sites
   ([unpinned_sites]) and by the catch_unwind monitor.  [weak_table] is a SNAPSHOT of how those entries of
   [PanicSites.sites] were read when this file was written: documentation only, tied to nothing. *)
From Coq Require Import List String NArith Bool.
From CL Require Import Gen.PanicSites.
From CL Require Model.Lexer Model.PText Model.Parser Model.Analysis.
Import ListNotations.
Local Open Scope string_scope.

Inductive treatment :=
| Site (name : string) (n : N)
| Unreachable (why : string)
| Unmodelled (why : string).

Definition group_table : list ((string * string * string * nat) * list treatment) := [
  (("lexer/mod", "block_comment", "debug_assert!", 1%nat),
   [Unmodelled "lexer debug assertion about the character just consumed: Model/Lexer.v has no panic outcome (lex_at is total: C03_lexer_total), the assertion restates the dispatch of advance_token; debug builds are exercised by the correspondence and the monitor"]);
  (("lexer/mod", "line_comment", "debug_assert!", 1%nat),
   [Unmodelled "lexer debug assertion about the character just consumed: Model/Lexer.v has no panic outcome (lex_at is total: C03_lexer_total), the assertion restates the dispatch of advance_token; debug builds are exercised by the correspondence and the monitor"]);
  (("lexer/mod", "number", "debug_assert!", 1%nat),
   [Unmodelled "lexer debug assertion about the character just consumed: Model/Lexer.v has no panic outcome (lex_at is total: C03_lexer_total), the assertion restates the dispatch of advance_token; debug builds are exercised by the correspondence and the monitor"]);
  (("lexer/mod", "whitespace", "debug_assert!", 1%nat),
   [Unmodelled "lexer debug assertion about the character just consumed: Model/Lexer.v has no panic outcome (lex_at is total: C03_lexer_total), the assertion restates the dispatch of advance_token; debug builds are exercised by the correspondence and the monitor"]);
  (("lexer/mod", "word", "debug_assert!", 1%nat),
   [Unmodelled "lexer debug assertion about the character just consumed: Model/Lexer.v has no panic outcome (lex_at is total: C03_lexer_total), the assertion restates the dispatch of advance_token; debug builds are exercised by the correspondence and the monitor"]);
  (("parser/block_parser", "base_offset", "unwrap", 1%nat),
   [Unreachable "BlockParser::new asserted a non-empty token slice (site_bp_new) and tokens is never reassigned"]);
  (("parser/block_parser", "bump", "assert_eq!", 1%nat),
   [Site "Parser.site_bump" Parser.site_bump]);
  (("parser/block_parser", "bump_any", "expect", 1%nat),
   [Site "Parser.site_bump_any" Parser.site_bump_any]);
  (("parser/block_parser", "error", "debug_assert!", 1%nat),
   [Unreachable "every caller passes a diagnostic built by error!(..) (severity Error); the model keeps errors and warnings in one event list by code"]);
  (("parser/block_parser", "finish", "assert_eq!", 1%nat),
   [Site "Parser.site_bp_finish" Parser.site_bp_finish]);
  (("parser/block_parser", "macro_rules!debug_assert_adjacent", "call windows", 1%nat),
   [Unreachable "debug_assert_adjacent: the token slices handed to BlockParser are contiguous sub-slices of the lexer's tiling (C04 token adjacency); the model keeps tokens as a list with their spans and does not re-check adjacency"]);
  (("parser/block_parser", "macro_rules!debug_assert_adjacent", "debug_assert!", 1%nat),
   [Unreachable "debug_assert_adjacent: the token slices handed to BlockParser are contiguous sub-slices of the lexer's tiling (C04 token adjacency); the model keeps tokens as a list with their spans and does not re-check adjacency"]);
  (("parser/block_parser", "new", "assert!", 1%nat),
   [Site "Parser.site_bp_new" Parser.site_bp_new]);
  (("parser/block_parser", "new", "debug_assert!", 1%nat),
   [Unreachable "bounds of the block's tokens: token spans tile the input (C04), first/last exist after the assert! above"]);
  (("parser/block_parser", "new", "debug_assert_adjacent!", 1%nat),
   [Unreachable "debug_assert_adjacent: the token slices handed to BlockParser are contiguous sub-slices of the lexer's tiling (C04 token adjacency); the model keeps tokens as a list with their spans and does not re-check adjacency"]);
  (("parser/block_parser", "new", "unwrap", 2%nat),
   [Unreachable "inside the debug_assert! that follows assert!(!tokens.is_empty()) in the same fn";
    Unreachable "inside the debug_assert! that follows assert!(!tokens.is_empty()) in the same fn"]);
  (("parser/block_parser", "parsed", "call split_at", 1%nat),
   [Unreachable "split_at(self.current): current <= tokens.len() is the invariant of next_token/until/consume_while/consume_rest; the model state holds the rest of the list (b_rest)"]);
  (("parser/block_parser", "rest", "call split_at", 1%nat),
   [Unreachable "split_at(self.current): current <= tokens.len() is the invariant of next_token/until/consume_while/consume_rest; the model state holds the rest of the list (b_rest)"]);
  (("parser/block_parser", "slice_str", "debug_assert_adjacent!", 1%nat),
   [Unreachable "debug_assert_adjacent: the token slices handed to BlockParser are contiguous sub-slices of the lexer's tiling (C04 token adjacency); the model keeps tokens as a list with their spans and does not re-check adjacency"]);
  (("parser/block_parser", "slice_str", "unwrap", 2%nat),
   [Unreachable "guarded by the is_empty return just above in the same fn";
    Unreachable "guarded by the is_empty return just above in the same fn"]);
  (("parser/block_parser", "text", "assert_eq!", 1%nat),
   [Site "Parser.site_text_offset" Parser.site_text_offset]);
  (("parser/block_parser", "text", "debug_assert!", 1%nat),
   [Site "Parser.site_escaped_len" Parser.site_escaped_len]);
  (("parser/block_parser", "text", "debug_assert_adjacent!", 1%nat),
   [Unreachable "debug_assert_adjacent: the token slices handed to BlockParser are contiguous sub-slices of the lexer's tiling (C04 token adjacency); the model keeps tokens as a list with their spans and does not re-check adjacency"]);
  (("parser/block_parser", "warn", "debug_assert!", 1%nat),
   [Unreachable "every caller passes a diagnostic built by warning!(..); the model keeps errors and warnings in one event list by code"]);
  (("parser/mod", "parse_block", "unreachable!", 1%nat),
   [Unreachable "let-else on the event metadata_entry just built: it only returns Event::Metadata; the model's metadata_entry returns the key/value pair directly"]);
  (("parser/mod", "parse_multiline_block", "debug_assert!", 1%nat),
   [Unreachable "the block splitter trims trailing newline tokens (next_block) before the block parser sees them: Proofs/ParserSplit.v; the model does not re-check"]);
  (("parser/mod", "tokens_span", "debug_assert!", 1%nat),
   [Unreachable "tokens_span is only called on bp.tokens() / non-empty consumed slices (site_bp_new guarantees a non-empty block); the model computes spans from non-empty lists, the empty case is a match arm returning the offset"]);
  (("parser/mod", "tokens_span", "unwrap", 2%nat),
   [Unreachable "tokens_span is only called on bp.tokens() / non-empty consumed slices (site_bp_new guarantees a non-empty block); the model computes spans from non-empty lists, the empty case is a match arm returning the offset";
    Unreachable "tokens_span is only called on bp.tokens() / non-empty consumed slices (site_bp_new guarantees a non-empty block); the model computes spans from non-empty lists, the empty case is a match arm returning the offset"]);
  (("parser/quantity", "int", "assert_eq!", 1%nat),
   [Unreachable "int() is called from numeric_value's match arms on slices whose pattern fixes the kind T![int]; the model matches on the kind in the same place"]);
  (("parser/quantity", "macro_rules!unwrap_numeric", "unreachable!", 1%nat),
   [Unreachable "numeric_value returns Some(r.map(Value::Number)): an Ok is always Value::Number; the model's numeric_value returns a number"]);
  (("parser/quantity", "mixed_num", "unreachable!", 1%nat),
   [Unreachable "frac() only builds Number::Fraction; the model's frac returns numerator and denominator"]);
  (("parser/quantity", "parse_advanced_quantity", "unwrap", 5%nat),
   [Unreachable "right operand of `is_empty() ||`: the slice is non-empty";
    Site "Parser.site_adv_rposition" Parser.site_adv_rposition;
    Unreachable "value_tokens[..=end_pos] has at least one element";
    Unreachable "right operand of `is_empty() ||`: the slice is non-empty";
    Unreachable "guarded by the `unit_tokens.is_empty()` return above in the same fn"]);
  (("parser/quantity", "parse_quantity", "assert!", 1%nat),
   [Site "Parser.site_qty_empty" Parser.site_qty_empty]);
  (("parser/quantity", "parse_regular_quantity", "unwrap", 1%nat),
   [Unreachable "unit_separator and unit come from the same Option by unzip(): Some together, and this is inside `if let Some(unit_text) = &unit`"]);
  (("parser/quantity", "range_value", "call split_at", 1%nat),
   [Unreachable "mid is a position of tokens (position()?): split_at(mid) is in bounds"]);
  (("parser/quantity", "range_value", "unwrap", 1%nat),
   [Unreachable "end starts at the `-` token found by position(): non-empty"]);
  (("parser/quantity", "trim_tokens", "unwrap", 1%nat),
   [Unreachable "position() found an element satisfying the same predicate, so rposition() does too"]);
  (("parser/step", "check_alias", "assert_ne!", 2%nat),
   [Unreachable "container is a &'static str constant at every call site: timer() passes TIMER, cookware() passes COOKWARE only to functions that do not assert it; the model has one function per container";
    Unreachable "container is a &'static str constant at every call site: timer() passes TIMER, cookware() passes COOKWARE only to functions that do not assert it; the model has one function per container"]);
  (("parser/step", "check_alias", "unwrap", 1%nat),
   [Unreachable "name_tokens holds the element at sep: non-empty"]);
  (("parser/step", "check_intermediate_data", "assert_ne!", 1%nat),
   [Unreachable "container is a &'static str constant at every call site: timer() passes TIMER, cookware() passes COOKWARE only to functions that do not assert it; the model has one function per container"]);
  (("parser/step", "check_modifiers", "assert_ne!", 2%nat),
   [Unreachable "container is a &'static str constant at every call site: timer() passes TIMER, cookware() passes COOKWARE only to functions that do not assert it; the model has one function per container";
    Unreachable "container is a &'static str constant at every call site: timer() passes TIMER, cookware() passes COOKWARE only to functions that do not assert it; the model has one function per container"]);
  (("parser/step", "check_note", "assert!", 1%nat),
   [Unreachable "the closure passed to with_recover ends in None::<()> on every path: with_recover returns it; inside it bump(T![')']) is Parser.site_bump (Model/Parser.v check_note)"]);
  (("parser/step", "check_note", "assert_ne!", 2%nat),
   [Unreachable "container is a &'static str constant at every call site: timer() passes TIMER, cookware() passes COOKWARE only to functions that do not assert it; the model has one function per container";
    Unreachable "container is a &'static str constant at every call site: timer() passes TIMER, cookware() passes COOKWARE only to functions that do not assert it; the model has one function per container"]);
  (("parser/step", "cookware", "expect", 1%nat),
   [Site "Parser.site_recipe_tok" Parser.site_recipe_tok]);
  (("parser/step", "parse_alias", "call split_at", 1%nat),
   [Unreachable "alias_sep is a position of tokens (position())"]);
  (("parser/step", "parse_alias", "unwrap", 1%nat),
   [Unreachable "alias_tokens starts at the `|` token found by position(): non-empty"]);
  (("parser/step", "parse_intermediate_ref_data", "expect", 1%nat),
   [Site "Parser.site_inter_paren" Parser.site_inter_paren]);
  (("parser/step", "parse_modifiers", "panic!", 1%nat),
   [Site "Parser.site_mod_token" Parser.site_mod_token]);
  (("analysis/event_consumer", "cookware", "assert!", 1%nat),
   [Site "Analysis.site_assert_is_definition" Analysis.site_assert_is_definition]);
  (("analysis/event_consumer", "cookware", "expect", 1%nat),
   [Unreachable "is_defined_in_step() is Some for a definition, and assert!(definition.relation.is_definition()) precedes it in the same branch"]);
  (("analysis/event_consumer", "cookware", "unwrap", 3%nat),
   [Unreachable "located_* mirrors the component it was built from field by field (Located<..> of the same event): quantity/unit is Some there exactly when the value just matched is Some; the model keeps one record per component, so there is no second Option";
    Unreachable "located_* mirrors the component it was built from field by field (Located<..> of the same event): quantity/unit is Some there exactly when the value just matched is Some; the model keeps one record per component, so there is no second Option";
    Unreachable "inside the `if let Some(..) = ..zip(definition.quantity)`: the definition has a quantity and its location record mirrors it"]);
  (("analysis/event_consumer", "find_inline_quantity", "call split_at", 1%nat),
   [Unmodelled "find_inline_quantity and its helpers are the oracle find_iq of Model/Analysis.v (hypothesis iq_shrinks); exercised by the correspondence of C06 and the monitor only"]);
  (("analysis/event_consumer", "find_inline_quantity", "debug_assert!", 1%nat),
   [Unmodelled "find_inline_quantity and its helpers are the oracle find_iq of Model/Analysis.v (hypothesis iq_shrinks); exercised by the correspondence of C06 and the monitor only"]);
  (("analysis/event_consumer", "in_step", "panic!", 1%nat),
   [Site "Analysis.Panic_547" 547%N]);
  (("analysis/event_consumer", "in_text", "assert_eq!", 1%nat),
   [Site "Analysis.site_nontext_in_text" Analysis.site_nontext_in_text]);
  (("analysis/event_consumer", "in_text", "panic!", 1%nat),
   [Site "Analysis.Panic_572" 572%N]);
  (("analysis/event_consumer", "in_text", "unreachable!", 1%nat),
   [Unreachable "inner match on the same ev inside the arm `Ingredient | Cookware | Timer`: the model's comp takes the span of the three cases directly"]);
  (("analysis/event_consumer", "ingredient", "assert!", 3%nat),
   [Site "Analysis.site_inter_without_ref" Analysis.site_inter_without_ref;
    Unreachable "else-branch of `if let Some(inter_data) = ingredient.intermediate_data`: it is None here (the model matches on it once)";
    Site "Analysis.site_assert_is_definition" Analysis.site_assert_is_definition]);
  (("analysis/event_consumer", "ingredient", "expect", 1%nat),
   [Unreachable "is_defined_in_step() is Some for a definition, and assert!(definition.relation.is_definition()) (site_assert_is_definition) precedes it in the same branch"]);
  (("analysis/event_consumer", "ingredient", "unwrap", 5%nat),
   [Unreachable "locations.ingredients[index].quantity is Some exactly when content.ingredients[index].quantity is (filter_map above kept only those); the two tables are pushed together";
    Unreachable "located_* mirrors the component it was built from field by field (Located<..> of the same event): quantity/unit is Some there exactly when the value just matched is Some; the model keeps one record per component, so there is no second Option";
    Unreachable "second operand of `ingredient.quantity.is_some() && ..` in the same condition";
    Unreachable "located_* mirrors the component it was built from field by field (Located<..> of the same event): quantity/unit is Some there exactly when the value just matched is Some; the model keeps one record per component, so there is no second Option";
    Unreachable "inside `if let Some((ref_q, def_q)) = new_igr.quantity.zip(definition.quantity)`: the definition has a quantity and its location record mirrors it"]);
  (("analysis/event_consumer", "metadata", "call insert", 3%nat),
   [Unmodelled "metadata map, standard-key checks and their warnings are dropped by Model/Analysis.v (header: Dropped); exercised by the monitor under catch_unwind only";
    Unmodelled "metadata map, standard-key checks and their warnings are dropped by Model/Analysis.v (header: Dropped); exercised by the monitor under catch_unwind only";
    Unmodelled "metadata map, standard-key checks and their warnings are dropped by Model/Analysis.v (header: Dropped); exercised by the monitor under catch_unwind only"]);
  (("analysis/event_consumer", "metadata", "unwrap", 1%nat),
   [Unmodelled "metadata map, standard-key checks and their warnings are dropped by Model/Analysis.v (header: Dropped); exercised by the monitor under catch_unwind only"]);
  (("analysis/event_consumer", "parse_events", "assert!", 1%nat),
   [Site "Analysis.site_end_kind_text" Analysis.site_end_kind_text]);
  (("analysis/event_consumer", "parse_events", "assert_eq!", 1%nat),
   [Site "Analysis.site_end_kind_step" Analysis.site_end_kind_step]);
  (("analysis/event_consumer", "parse_events", "panic!", 2%nat),
   [Site "Analysis.site_end_without_start" Analysis.site_end_without_start;
    Site "Analysis.site_content_outside_block" Analysis.site_content_outside_block]);
  (("analysis/event_consumer", "parse_reference", "unwrap", 1%nat),
   [Unreachable "the name starts with ./ or ../ (or the backslash forms, replaced by /): split('/') yields at least two items, one is left after skip(1); the model splits the same way"]);
  (("analysis/event_consumer", "process_frontmatter", "unwrap", 1%nat),
   [Unmodelled "metadata map, standard-key checks and their warnings are dropped by Model/Analysis.v (header: Dropped); exercised by the monitor under catch_unwind only"]);
  (("analysis/event_consumer", "resolve_intermediate_ref", "assert!", 1%nat),
   [Site "Analysis.site_inter_negative" Analysis.site_inter_negative]);
  (("analysis/event_consumer", "resolve_intermediate_ref", "unwrap", 2%nat),
   [Unreachable "guarded by the `if index.is_none() { return .. }` just above in the same arm";
    Unreachable "guarded by the `if index.is_none() { return .. }` just above in the same arm"]);
  (("analysis/event_consumer", "resolve_reference", "assert!", 1%nat),
   [Site "Analysis.site_assert_target_not_ref" Analysis.site_assert_target_not_ref]);
  (("analysis/event_consumer", "set_referenced_from", "panic!", 2%nat),
   [Site "Analysis.site_assert_is_definition" Analysis.site_assert_is_definition;
    Site "Analysis.site_assert_is_definition" Analysis.site_assert_is_definition]);
  (("analysis/event_consumer", "time_override_check", "assert!", 1%nat),
   [Unmodelled "metadata map, standard-key checks and their warnings are dropped by Model/Analysis.v (header: Dropped); exercised by the monitor under catch_unwind only"]);
  (("analysis/event_consumer", "time_override_check", "call remove", 1%nat),
   [Unmodelled "metadata map, standard-key checks and their warnings are dropped by Model/Analysis.v (header: Dropped); exercised by the monitor under catch_unwind only"]);
  (("analysis/event_consumer", "time_override_check", "panic!", 1%nat),
   [Unmodelled "metadata map, standard-key checks and their warnings are dropped by Model/Analysis.v (header: Dropped); exercised by the monitor under catch_unwind only"]);
  (("analysis/event_consumer", "time_override_check", "unwrap", 1%nat),
   [Unmodelled "metadata map, standard-key checks and their warnings are dropped by Model/Analysis.v (header: Dropped); exercised by the monitor under catch_unwind only"]);
  (("analysis/event_consumer", "timer", "unwrap", 2%nat),
   [Unreachable "located_* mirrors the component it was built from field by field (Located<..> of the same event): quantity/unit is Some there exactly when the value just matched is Some; the model keeps one record per component, so there is no second Option";
    Unreachable "located_* mirrors the component it was built from field by field (Located<..> of the same event): quantity/unit is Some there exactly when the value just matched is Some; the model keeps one record per component, so there is no second Option"]);
  (("text", "append_fragment", "assert!", 1%nat),
   [Site "PText.site_text_append" PText.site_text_append]);
  (("text", "span", "unwrap", 2%nat),
   [Unreachable "arm TextData::Fragmented: that variant is only built by append_fragment from a Single plus one more fragment and never shrinks; the model's text_span matches on the list";
    Unreachable "arm TextData::Fragmented: that variant is only built by append_fragment from a Single plus one more fragment and never shrinks; the model's text_span matches on the list"]);
  (("error", "error", "debug_assert_eq!", 1%nat),
   [Unmodelled "diagnostics buffer and report rendering (src/error.rs) are outside the three models; write_report is run under catch_unwind by the monitor (c04:render)"]);
  (("error", "into_result", "unwrap", 1%nat),
   [Unmodelled "diagnostics buffer and report rendering (src/error.rs) are outside the three models; write_report is run under catch_unwind by the monitor (c04:render)"]);
  (("error", "push", "debug_assert!", 1%nat),
   [Unmodelled "diagnostics buffer and report rendering (src/error.rs) are outside the three models; write_report is run under catch_unwind by the monitor (c04:render)"]);
  (("error", "set_severity", "debug_assert!", 1%nat),
   [Unmodelled "diagnostics buffer and report rendering (src/error.rs) are outside the three models; write_report is run under catch_unwind by the monitor (c04:render)"]);
  (("error", "unwrap_output", "unwrap", 1%nat),
   [Unmodelled "diagnostics buffer and report rendering (src/error.rs) are outside the three models; write_report is run under catch_unwind by the monitor (c04:render)"]);
  (("error", "warn", "debug_assert_eq!", 1%nat),
   [Unmodelled "diagnostics buffer and report rendering (src/error.rs) are outside the three models; write_report is run under catch_unwind by the monitor (c04:render)"])
].

(* sites of the models that stand for an index or arithmetic expression of the source (not pinned):
   (model site, the expressions as of the snapshot [weak_table]) *)
Definition unpinned_sites : list (string * string) := [
  ("Parser.site_trim_index", "parser/mod next_block: self.block[end-1] and end - 1");
  ("Analysis.site_in_text_slice", "analysis/event_consumer in_text: self.input[span.range()]");
  ("Analysis.site_index_definition",
   "analysis/event_consumer ingredient / cookware / resolve_reference / set_referenced_from: ..[references_to]");
  ("Analysis.site_units_index",
   "analysis/event_consumer ingredient: self.content.ingredients[index], self.locations.ingredients[index]");
  ("Analysis.site_step_counter_overflow", "analysis/event_consumer parse_events: self.step_counter += 1")
].

(* sites of the models that stand for no expression of the current source *)
Definition model_only : list (string * string) := [
  ("Parser.site_fuel",
   "model only: the fuel of the model's loops ran out (the Rust loops have no counter); never reached: C03_events_total");
  ("Parser.site_label_underflow",
   "the `start - 1` of the note label before the repair of check_note (p_note_label_old); the current code has no subtraction there, the model keeps the guard for the _refuted theorem about the old code");
  ("Analysis.site_iq_fuel",
   "model only: the find_iq oracle did not shrink the text (hypothesis iq_shrinks of C03_analyse_total)")
].

Definition is_site (ms : string * N) (t : treatment) : bool :=
  match t with
  | Site nm n => String.eqb nm (fst ms) && N.eqb n (snd ms)
  | _ => false
  end.
Definition named (nm : string) (t : treatment) : bool :=
  match t with Site nm' _ => String.eqb nm nm' | _ => false end.
Definition all_treatments : list treatment := flat_map snd group_table.

(* every group has one treatment per site *)
Definition groups_full : bool :=
  forallb (fun row => Nat.eqb (List.length (snd row)) (snd (fst row))) group_table.

(* every site of the models is hit by a pinned site, or stands for an unpinned expression, or is model-only *)
Definition model_sites_accounted : bool :=
  forallb (fun ms => existsb (is_site ms) all_treatments
                     || existsb (fun u => String.eqb (fst u) (fst ms)) unpinned_sites
                     || existsb (fun mo => String.eqb (fst mo) (fst ms)) model_only)
          PanicSites.model_sites.

(* every [Site] names a site of the models, with the value it has there; the names of [unpinned_sites] and
   [model_only] exist and are not the image of a pinned site *)
Definition table_sites_exist : bool :=
  forallb (fun t => match t with
                    | Site _ _ => existsb (fun ms => is_site ms t) PanicSites.model_sites
                    | _ => true
                    end) all_treatments
  && forallb (fun nm => existsb (fun ms => String.eqb nm (fst ms)) PanicSites.model_sites
                        && negb (existsb (named nm) all_treatments))
             (map fst unpinned_sites ++ map fst model_only).

Definition count_sites : nat :=
  List.length (filter (fun t => match t with Site _ _ => true | _ => false end) all_treatments).
Definition count_unreachable : nat :=
  List.length (filter (fun t => match t with Unreachable _ => true | _ => false end) all_treatments).
Definition count_unmodelled : nat :=
  List.length (filter (fun t => match t with Unmodelled _ => true | _ => false end) all_treatments).

(* SNAPSHOT, documentation only (see the header): the index / arithmetic entries of [PanicSites.sites] *)
Definition weak_table : list (site * treatment) := [
  (("lexer/cursor", "pos_within_token", KArith,
    "self.len_remaining - self.chars.as_str().len()"),
   Unreachable "len_remaining is the length of the rest at the start of the token and chars only shrinks; Model/Lexer.v computes token lengths from the consumed prefix");
  (("parser/block_parser", "macro_rules!debug_assert_adjacent", KIndex,
    "w[0]"),
   Unreachable "debug_assert_adjacent: the token slices handed to BlockParser are contiguous sub-slices of the lexer's tiling (C04 token adjacency); the model keeps tokens as a list with their spans and does not re-check adjacency");
  (("parser/block_parser", "macro_rules!debug_assert_adjacent", KIndex,
    "w[1]"),
   Unreachable "debug_assert_adjacent: the token slices handed to BlockParser are contiguous sub-slices of the lexer's tiling (C04 token adjacency); the model keeps tokens as a list with their spans and does not re-check adjacency");
  (("parser/block_parser", "capture_slice", KIndex,
    "self.tokens[start..end]"),
   Unreachable "start and end are two readings of self.current, which only grows and is bounded by tokens.len(); the model returns the consumed tokens as a list");
  (("parser/block_parser", "token_str", KIndex,
    "self.input[token.span.range()]"),
   Unreachable "slice of the input at token spans: the model carries the text of every token (tstr) instead of slicing; token spans are in bounds and on char boundaries (C04 lexer theorems)");
  (("parser/block_parser", "slice_str", KIndex,
    "self.input[start..end]"),
   Unreachable "slice of the input at token spans: the model carries the text of every token (tstr) instead of slicing; token spans are in bounds and on char boundaries (C04 lexer theorems)");
  (("parser/block_parser", "text", KIndex,
    "tokens[0]"),
   Unreachable "guarded by the is_empty return just above in the same fn (text_of matches on the list)");
  (("parser/block_parser", "text", KIndex,
    "tokens[0]"),
   Unreachable "guarded by the is_empty return just above in the same fn (text_of matches on the list)");
  (("parser/block_parser", "text", KIndex,
    "self.input[start..end]"),
   Unreachable "slice of the input at token spans: the model carries the text of every token (tstr) instead of slicing; token spans are in bounds and on char boundaries (C04 lexer theorems)");
  (("parser/block_parser", "text", KIndex,
    "self.input[token.span.range()]"),
   Unreachable "slice of the input at token spans: the model carries the text of every token (tstr) instead of slicing; token spans are in bounds and on char boundaries (C04 lexer theorems)");
  (("parser/block_parser", "text", KIndex,
    "self.input[start..end]"),
   Unreachable "slice of the input at token spans: the model carries the text of every token (tstr) instead of slicing; token spans are in bounds and on char boundaries (C04 lexer theorems)");
  (("parser/block_parser", "text", KIndex,
    "self.input[start..end]"),
   Unreachable "slice of the input at token spans: the model carries the text of every token (tstr) instead of slicing; token spans are in bounds and on char boundaries (C04 lexer theorems)");
  (("parser/block_parser", "text", KIndex,
    "self.input[token.span.range()]"),
   Unreachable "slice of the input at token spans: the model carries the text of every token (tstr) instead of slicing; token spans are in bounds and on char boundaries (C04 lexer theorems)");
  (("parser/block_parser", "text", KIndex,
    "self.input[start..end]"),
   Unreachable "slice of the input at token spans: the model carries the text of every token (tstr) instead of slicing; token spans are in bounds and on char boundaries (C04 lexer theorems)");
  (("parser/block_parser", "consume_rest", KArith,
    "self.current += r.len()"),
   Unreachable "current grows by the number of tokens taken from rest(): bounded by tokens.len() <= input length, no usize overflow; the model has no counter (b_rest)");
  (("parser/block_parser", "next_token", KArith,
    "self.current += 1"),
   Unreachable "current grows by the number of tokens taken from rest(): bounded by tokens.len() <= input length, no usize overflow; the model has no counter (b_rest)");
  (("parser/block_parser", "until", KIndex,
    "rest[..pos]"),
   Unreachable "pos comes from position() over rest or is rest.len(): in bounds; the model splits the list (until / consume_while)");
  (("parser/block_parser", "until", KArith,
    "self.current += pos"),
   Unreachable "current grows by the number of tokens taken from rest(): bounded by tokens.len() <= input length, no usize overflow; the model has no counter (b_rest)");
  (("parser/block_parser", "consume_while", KIndex,
    "rest[..pos]"),
   Unreachable "pos comes from position() over rest or is rest.len(): in bounds; the model splits the list (until / consume_while)");
  (("parser/block_parser", "consume_while", KArith,
    "self.current += pos"),
   Unreachable "current grows by the number of tokens taken from rest(): bounded by tokens.len() <= input length, no usize overflow; the model has no counter (b_rest)");
  (("parser/frontmatter", "parse_frontmatter", KIndex,
    "input[..fence_start]"),
   Unreachable "offsets returned by fences(): starts/ends of lines of the input, hence char boundaries in bounds; Model/Parser.v splits the character list at the fence lines (Proofs/ParserFM.v)");
  (("parser/frontmatter", "parse_frontmatter", KIndex,
    "input[yaml_start..yaml_end]"),
   Unreachable "offsets returned by fences(): starts/ends of lines of the input, hence char boundaries in bounds; Model/Parser.v splits the character list at the fence lines (Proofs/ParserFM.v)");
  (("parser/frontmatter", "parse_frontmatter", KIndex,
    "input[cooklang_start..]"),
   Unreachable "offsets returned by fences(): starts/ends of lines of the input, hence char boundaries in bounds; Model/Parser.v splits the character list at the fence lines (Proofs/ParserFM.v)");
  (("parser/frontmatter", "lines_with_offset", KArith,
    "offset += l.len()"),
   Unreachable "sum of the line lengths of the input: bounded by input.len()");
  (("parser/mod", "next_block", KIndex,
    "self.block[end-1]"),
   Site "Parser.site_trim_index" Parser.site_trim_index);
  (("parser/mod", "next_block", KArith,
    "end - 1"),
   Site "Parser.site_trim_index" Parser.site_trim_index);
  (("parser/mod", "next_block", KArith,
    "end -= 1"),
   Unreachable "guarded by the `if end <= start { break }` just above: end > start >= 0");
  (("parser/mod", "next_block", KIndex,
    "self.block[start..end]"),
   Unreachable "start <= end <= block.len(): both are readings of self.block.len() and the loop only lowers end down to start; the model trims the list");
  (("parser/quantity", "parse_advanced_quantity", KIndex,
    "value_tokens[..=end_pos]"),
   Unreachable "end_pos is a position of the slice (rposition): ..=end_pos is in bounds");
  (("parser/quantity", "trim_tokens", KIndex,
    "s[0..0]"),
   Unreachable "the empty range 0..0 is in bounds of any slice");
  (("parser/quantity", "trim_tokens", KIndex,
    "s[from..=to]"),
   Unreachable "from and to are positions of s with from <= to (first and last match of one predicate)");
  (("parser/step", "modifiers", KIndex,
    "bp.tokens()[start..bp.current]"),
   Unreachable "start is an earlier reading of bp.current, which only grows and stays <= tokens.len()");
  (("parser/step", "parse_intermediate_ref_data", KIndex,
    "slice[..=end_pos]"),
   Unreachable "end_pos is a position in the iterator over the same slice");
  (("parser/step", "parse_intermediate_ref_data", KIndex,
    "slice[1..slice.len()-1]"),
   Unreachable "slice starts with `(` (checked by matches! at the top) and ends with the `)` found: length >= 2");
  (("parser/step", "parse_intermediate_ref_data", KArith,
    "slice.len() - 1"),
   Unreachable "slice has at least the two parentheses: len() >= 2");
  (("parser/step", "check_alias", KIndex,
    "name_tokens[sep]"),
   Unreachable "sep is a position of name_tokens (position())");
  (("parser/token_stream", "offset", KArith,
    "self.consumed += offset"),
   Unreachable "consumed is the byte offset into the input: sum of token lengths <= input.len(); Model/Lexer.v carries the offset as an unbounded N");
  (("parser/token_stream", "next", KArith,
    "self.consumed += t.len as usize"),
   Unreachable "consumed is the byte offset into the input: sum of token lengths <= input.len(); Model/Lexer.v carries the offset as an unbounded N");
  (("analysis/event_consumer", "parse_events", KArith,
    "self.step_counter += 1"),
   Site "Analysis.site_step_counter_overflow" Analysis.site_step_counter_overflow);
  (("analysis/event_consumer", "metadata", KIndex,
    "key_t[1..key_t.len()-1]"),
   Unmodelled "metadata map, standard-key checks and their warnings are dropped by Model/Analysis.v (header: Dropped); exercised by the monitor under catch_unwind only");
  (("analysis/event_consumer", "metadata", KArith,
    "key_t.len() - 1"),
   Unmodelled "metadata map, standard-key checks and their warnings are dropped by Model/Analysis.v (header: Dropped); exercised by the monitor under catch_unwind only");
  (("analysis/event_consumer", "time_override_check", KIndex,
    "locs(&[new])[0]"),
   Unmodelled "metadata map, standard-key checks and their warnings are dropped by Model/Analysis.v (header: Dropped); exercised by the monitor under catch_unwind only");
  (("analysis/event_consumer", "in_text", KIndex,
    "self.input[span.range()]"),
   Site "Analysis.site_in_text_slice" Analysis.site_in_text_slice);
  (("analysis/event_consumer", "in_text", KIndex,
    "src[pos..end]"),
   Unreachable "pos..end are the token boundaries the lexer cursor reports for src: a tiling of src (C04 lexer theorems); the model strips comments on the character list (strip_comments)");
  (("analysis/event_consumer", "ingredient", KIndex,
    "self.content.ingredients[references_to]"),
   Site "Analysis.site_index_definition" Analysis.site_index_definition);
  (("analysis/event_consumer", "ingredient", KIndex,
    "self.locations.ingredients[references_to]"),
   Site "Analysis.site_index_definition" Analysis.site_index_definition);
  (("analysis/event_consumer", "ingredient", KIndex,
    "self.content.ingredients[index]"),
   Site "Analysis.site_units_index" Analysis.site_units_index);
  (("analysis/event_consumer", "ingredient", KIndex,
    "self.locations.ingredients[index]"),
   Site "Analysis.site_units_index" Analysis.site_units_index);
  (("analysis/event_consumer", "ingredient", KArith,
    "self.content.ingredients.len() - 1"),
   Unreachable "len() - 1 right after a push: the vector is non-empty; the model returns length l of the list before the push");
  (("analysis/event_consumer", "resolve_intermediate_ref", KArith,
    "val - 1"),
   Unreachable "val is a u32 and the `if val == 0 { return Err(..) }` block above returns on both modes: val >= 1 here; the model computes on Z");
  (("analysis/event_consumer", "resolve_intermediate_ref", KArith,
    "val - 1"),
   Unreachable "val is a u32 and the `if val == 0 { return Err(..) }` block above returns on both modes: val >= 1 here; the model computes on Z");
  (("analysis/event_consumer", "resolve_intermediate_ref", KArith,
    "val - 1"),
   Unreachable "val is a u32 and the `if val == 0 { return Err(..) }` block above returns on both modes: val >= 1 here; the model computes on Z");
  (("analysis/event_consumer", "cookware", KIndex,
    "self.content.cookware[references_to]"),
   Site "Analysis.site_index_definition" Analysis.site_index_definition);
  (("analysis/event_consumer", "cookware", KIndex,
    "self.locations.cookware[references_to]"),
   Site "Analysis.site_index_definition" Analysis.site_index_definition);
  (("analysis/event_consumer", "cookware", KArith,
    "self.content.cookware.len() - 1"),
   Unreachable "len() - 1 right after a push: the vector is non-empty; the model returns length l of the list before the push");
  (("analysis/event_consumer", "timer", KArith,
    "self.content.timers.len() - 1"),
   Unreachable "len() - 1 right after a push: the vector is non-empty; the model returns length l of the list before the push");
  (("analysis/event_consumer", "resolve_reference", KIndex,
    "all[references_to]"),
   Site "Analysis.site_index_definition" Analysis.site_index_definition);
  (("analysis/event_consumer", "set_referenced_from", KIndex,
    "all[references_to]"),
   Site "Analysis.site_index_definition" Analysis.site_index_definition);
  (("analysis/event_consumer", "set_referenced_from", KIndex,
    "all[references_to]"),
   Site "Analysis.site_index_definition" Analysis.site_index_definition);
  (("analysis/event_consumer", "eat_word", KIndex,
    "text[*i..]"),
   Unmodelled "find_inline_quantity and its helpers are the oracle find_iq of Model/Analysis.v (hypothesis iq_shrinks); exercised by the correspondence of C06 and the monitor only");
  (("analysis/event_consumer", "eat_word", KIndex,
    "s[..offset]"),
   Unmodelled "find_inline_quantity and its helpers are the oracle find_iq of Model/Analysis.v (hypothesis iq_shrinks); exercised by the correspondence of C06 and the monitor only");
  (("analysis/event_consumer", "eat_word", KArith,
    "i += offset"),
   Unmodelled "find_inline_quantity and its helpers are the oracle find_iq of Model/Analysis.v (hypothesis iq_shrinks); exercised by the correspondence of C06 and the monitor only");
  (("analysis/event_consumer", "eat_whitespace", KIndex,
    "text[*i..]"),
   Unmodelled "find_inline_quantity and its helpers are the oracle find_iq of Model/Analysis.v (hypothesis iq_shrinks); exercised by the correspondence of C06 and the monitor only");
  (("analysis/event_consumer", "eat_whitespace", KIndex,
    "text[*i..*i+offset]"),
   Unmodelled "find_inline_quantity and its helpers are the oracle find_iq of Model/Analysis.v (hypothesis iq_shrinks); exercised by the correspondence of C06 and the monitor only");
  (("analysis/event_consumer", "eat_whitespace", KArith,
    "i += offset"),
   Unmodelled "find_inline_quantity and its helpers are the oracle find_iq of Model/Analysis.v (hypothesis iq_shrinks); exercised by the correspondence of C06 and the monitor only");
  (("analysis/event_consumer", "find_inline_quantity", KIndex,
    "text[i..]"),
   Unmodelled "find_inline_quantity and its helpers are the oracle find_iq of Model/Analysis.v (hypothesis iq_shrinks); exercised by the correspondence of C06 and the monitor only");
  (("analysis/event_consumer", "find_inline_quantity", KArith,
    "i += offset"),
   Unmodelled "find_inline_quantity and its helpers are the oracle find_iq of Model/Analysis.v (hypothesis iq_shrinks); exercised by the correspondence of C06 and the monitor only");
  (("analysis/event_consumer", "find_inline_quantity", KIndex,
    "text.as_bytes()[i-1]"),
   Unmodelled "find_inline_quantity and its helpers are the oracle find_iq of Model/Analysis.v (hypothesis iq_shrinks); exercised by the correspondence of C06 and the monitor only");
  (("analysis/event_consumer", "find_inline_quantity", KArith,
    "i - 1"),
   Unmodelled "find_inline_quantity and its helpers are the oracle find_iq of Model/Analysis.v (hypothesis iq_shrinks); exercised by the correspondence of C06 and the monitor only");
  (("analysis/event_consumer", "find_inline_quantity", KIndex,
    "text[..i-1]"),
   Unmodelled "find_inline_quantity and its helpers are the oracle find_iq of Model/Analysis.v (hypothesis iq_shrinks); exercised by the correspondence of C06 and the monitor only");
  (("analysis/event_consumer", "find_inline_quantity", KArith,
    "i - 1"),
   Unmodelled "find_inline_quantity and its helpers are the oracle find_iq of Model/Analysis.v (hypothesis iq_shrinks); exercised by the correspondence of C06 and the monitor only");
  (("analysis/event_consumer", "find_inline_quantity", KIndex,
    "text[..i]"),
   Unmodelled "find_inline_quantity and its helpers are the oracle find_iq of Model/Analysis.v (hypothesis iq_shrinks); exercised by the correspondence of C06 and the monitor only");
  (("analysis/event_consumer", "find_inline_quantity", KIndex,
    "text[i..]"),
   Unmodelled "find_inline_quantity and its helpers are the oracle find_iq of Model/Analysis.v (hypothesis iq_shrinks); exercised by the correspondence of C06 and the monitor only");
  (("analysis/event_consumer", "yaml_find_key_position", KArith,
    "offset += line.len()"),
   Unmodelled "yaml_find_key_position locates a key for a warning label; warnings are dropped by Model/Analysis.v (modelled separately for C04: checks/c04_labels.py); monitor only");
  (("analysis/event_consumer", "yaml_find_key_position", KIndex,
    "k[start..]"),
   Unmodelled "yaml_find_key_position locates a key for a warning label; warnings are dropped by Model/Analysis.v (modelled separately for C04: checks/c04_labels.py); monitor only");
  (("text", "text", KArith,
    "s += text"),
   Unreachable "`s += text` on a Cow<str>: string concatenation, not integer arithmetic (listed by the token-level over-approximation)");
  (("text", "fmt", KIndex,
    "fragments[0]"),
   Unreachable "match arm for fragments.len() == 1 (Debug formatting; not on the parse path)");
  (("span", "len", KArith,
    "self.end - self.start"),
   Unreachable "Span::new keeps start <= end for every span the parser builds (C04_event_spans_ok: span_ok); the models compute on unbounded N");
  (("error", "next", KIndex,
    "Self::COLORS[self.0]"),
   Unmodelled "diagnostics buffer and report rendering (src/error.rs) are outside the three models; write_report is run under catch_unwind by the monitor (c04:render)");
  (("error", "next", KArith,
    "Self::COLORS.len() - 1"),
   Unmodelled "diagnostics buffer and report rendering (src/error.rs) are outside the three models; write_report is run under catch_unwind by the monitor (c04:render)");
  (("error", "next", KArith,
    "self.0 += 1"),
   Unmodelled "diagnostics buffer and report rendering (src/error.rs) are outside the three models; write_report is run under catch_unwind by the monitor (c04:render)");
  (("error", "write_report", KArith,
    "core::cmp::max(w, 1) - sub"),
   Unmodelled "diagnostics buffer and report rendering (src/error.rs) are outside the three models; write_report is run under catch_unwind by the monitor (c04:render)")
].
