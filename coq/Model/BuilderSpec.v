(* What C16 says about a built converter, written independently of the builder:
   index consistency, well-formed best lists, the layering fold, SI forms, and
   the comparison with a converter dumped from the running implementation. *)
From Coq Require Export QArith Qabs Sorting.Sorted Sorting.Permutation.
From CL Require Export Model.Builder.
Local Open Scope N_scope.

(* ---- index ------------------------------------------------------------ *)

(* every name, symbol and alias of every unit (SI-prefixed forms are names and symbols of
   units of their own) resolves to exactly that unit, and the index holds nothing else *)
Definition index_consistent (units : list cunit) (ix : index) : Prop :=
  (forall i u k, nth_error units i = Some u -> In k (all_keys u) -> find k ix = Some i) /\
  (forall k i, find k ix = Some i -> exists u, nth_error units i = Some u /\ In k (all_keys u)).

Definition no_shared_key (units : list cunit) : Prop :=
  forall i j u v k, nth_error units i = Some u -> nth_error units j = Some v ->
    In k (all_keys u) -> In k (all_keys v) -> i = j.

Definition keys_well_formed (units : list cunit) : Prop :=
  forall i u, nth_error units i = Some u ->
    all_keys u <> [] /\ NoDup (all_keys u) /\ forall k, In k (all_keys u) -> blank_key k = false.

(* ---- best lists ------------------------------------------------------- *)

Definition ratio_le (units : list cunit) (i j : nat) : Prop :=
  exists u v, nth_error units i = Some u /\ nth_error units j = Some v /\ (ratio u <= ratio v)%Q.

(* the value BestConversions::new stores for a unit: 1 converted to the base unit *)
Definition threshold_of (u base : cunit) : Q :=
  (((1 + difference u) * ratio u) / ratio base - difference base)%Q.

Definition best_list_ok (units : list cunit) (q : pq) (l : list (Q * nat)) : Prop :=
  (* non-empty, and the first (smallest) unit is the base with threshold 1 *)
  (exists b rest, l = (1%Q, b) :: rest /\
     forall th i, In (th, i) rest ->
       exists u bu, nth_error units i = Some u /\ nth_error units b = Some bu /\
                    th = threshold_of u bu) /\
  (* units of the list's own physical quantity *)
  (forall th i, In (th, i) l -> exists u, nth_error units i = Some u /\ quantity u = q) /\
  (* in non-decreasing size *)
  Sorted (ratio_le units) (map snd l).

Definition best_store_ok (units : list cunit) (q : pq) (s : best_store) : Prop :=
  match s with
  | SUnified l => best_list_ok units q l
  | SBySystem m i => best_list_ok units q m /\ best_list_ok units q i
  end.

(* offset-free units: the threshold is the quotient of the ratios *)
Lemma threshold_offset_free u b :
  (difference u == 0)%Q -> (difference b == 0)%Q -> (threshold_of u b == ratio u / ratio b)%Q.
Proof.
  intros Hu Hb. unfold threshold_of. rewrite Hu, Hb. unfold Qdiv. ring.
Qed.

(* ---- layering, as an independent fold ---------------------------------- *)

(* what a list becomes when a later layer gives [new] with precedence [p] *)
Definition layered {A} (cur new : list A) (p : prec) : list A :=
  match p with
  | Before => new ++ cur
  | After => cur ++ new
  | Override => new
  end.

(* the prefix table in force after all layers *)
Definition layered_table (cur : option ptable) (l : option ptable) (p : prec) : option ptable :=
  match cur, l with
  | Some a, Some b => Some (fun x => layered (a x) (b x) p)
  | Some a, None => Some a
  | None, o => o
  end.

Definition final_tables (files : list units_file) : option ptable * option ptable :=
  fold_left (fun acc f =>
               match uf_si f with
               | Some si => (layered_table (fst acc) (si_prefixes si) (si_prec si),
                             layered_table (snd acc) (si_symbol_prefixes si) (si_prec si))
               | None => acc
               end) files (None, None).

Fixpoint last_given {A} (sel : units_file -> option A) (files : list units_file) (d : option A) : option A :=
  match files with
  | [] => d
  | f :: r => last_given sel r (match sel f with Some x => Some x | None => d end)
  end.

(* the best list given last for a quantity *)
Definition last_best (q : pq) (files : list units_file) : option best_units :=
  fold_left (fun acc f =>
               fold_left (fun acc g => if pq_eqb (qg_quantity g) q
                                       then match qg_best g with Some b => Some b | None => acc end
                                       else acc) (uf_quantity f) acc) files None.

(* the fractions blocks in the order given *)
Definition fractions_layers (files : list units_file) : list fractions :=
  flat_map (fun f => match uf_fractions f with Some fr => [fr] | None => [] end) files.

(* the last block that sets a field *)
Fixpoint last_set (sel : fractions -> option frac_wrapper) (l : list fractions) (d : option frac_wrapper)
  : option frac_wrapper :=
  match l with
  | [] => d
  | f :: r => last_set sel r (match sel f with Some x => Some x | None => d end)
  end.

(* what a fractions setting becomes in the converter: defaults filled in, values clamped *)
Definition defined (w : option frac_wrapper) : option fcfg :=
  option_map (fun w => fh_define (fw_get w)) w.

(* the stored best list [l] holds exactly the units the names [ns] resolve to *)
Definition resolves (c : converter) (ns : list str) (l : list (Q * nat)) : Prop :=
  exists ids, Forall2 (fun n i => find_unit c n = Some i) ns ids /\ Permutation ids (map snd l).

Definition best_from (c : converter) (q : pq) (b : best_units) : Prop :=
  match b, c_best c q with
  | BUnified ns, SUnified l => resolves c ns l
  | BBySystem m i, SBySystem lm li => resolves c m lm /\ resolves c i li
  | _, _ => False
  end.

(* an extend entry applied to a unit, as the precedence rule says *)
Definition layered_unit (u : cunit) (e : ext_entry) (p : prec) : cunit :=
  {| names := match xe_names e with Some l => layered (names u) l p | None => names u end;
     symbols := match xe_symbols e with Some l => layered (symbols u) l p | None => symbols u end;
     aliases := match xe_aliases e with Some l => layered (aliases u) l p | None => aliases u end;
     ratio := match xe_ratio e with Some r => r | None => ratio u end;
     difference := match xe_difference e with Some d => d | None => difference u end;
     quantity := quantity u; usystem := usystem u |}.

(* the aliases of unit [j] after the entries [ups] of one extend block (each entry already resolved to the
   unit it addresses): only the entries addressed to [j] count, each according to the precedence of the block -
   whatever else the block does (editing the base unit of an SI form regenerates the form) *)
Fixpoint aliases_after (p : prec) (ups : list (nat * ext_entry)) (j : nat) (a : list str) : list str :=
  match ups with
  | [] => a
  | (id, e) :: r =>
      aliases_after p r j
        (if Nat.eqb id j then match xe_aliases e with Some l => layered a l p | None => a end else a)
  end.

(* [x] is the SI form of [b] for the prefix [p] under the prefix tables [pt] / [st]: its names and
   symbols are the prefixed names and symbols of [b] as they are now, its ratio the power of ten;
   its aliases are its own *)
Definition is_form (pt st : ptable) (p : sipre) (b x : cunit) : Prop :=
  names x = prefixed (pt p) (names b) /\ symbols x = prefixed (st p) (symbols b) /\
  ratio x = (ratio b * sipre_ratio p)%Q /\ difference x = difference b /\
  quantity x = quantity b /\ usystem x = usystem b.

(* unit [j] after the entries [ups] of one extend block (each entry resolved to the unit it
   addresses): the entries addressed to [j], each applied by the precedence of the block *)
Fixpoint unit_after (p : prec) (ups : list (nat * ext_entry)) (j : nat) (u : cunit) : cunit :=
  match ups with
  | [] => u
  | (id, e) :: r => unit_after p r j (if Nat.eqb id j then layered_unit u e p else u)
  end.

(* an entry that only gives aliases (the only edit allowed on an SI form) *)
Definition alias_only (e : ext_entry) : Prop :=
  xe_ratio e = None /\ xe_difference e = None /\ xe_names e = None /\ xe_symbols e = None.

(* ---- fractions: what Fractions::config must answer for a unit after all the layers ----
   every field is the first one defined by: the last per-unit entry whose key is a key of the unit,
   the last setting of its quantity, of its system, of `all` - each taken over ALL the layers;
   a unit without entry gets the most specific table entry that exists (quantity, system, all) *)
Definition last_quantity (q : pq) (layers : list fractions) : option frac_wrapper :=
  fold_left (fun acc fr =>
               fold_left (fun acc e => if pq_eqb (fst e) q then Some (snd e) else acc) (fr_quantity fr) acc)
            layers None.

Definition last_unit_entry (c : converter) (t : nat) (layers : list fractions) : option frac_wrapper :=
  fold_left (fun acc fr =>
               fold_left (fun acc e => match find_unit c (fst e) with
                                       | Some i => if Nat.eqb i t then Some (snd e) else acc
                                       | None => acc
                                       end) (fr_unit fr) acc)
            layers None.

Definition system_setting (layers : list fractions) (s : option system) : option frac_wrapper :=
  match s with
  | Some Metric => last_set fr_metric layers None
  | Some Imperial => last_set fr_imperial layers None
  | None => None
  end.

Fixpoint first_defined {A} (sel : frac_helper -> option A) (l : list (option frac_wrapper)) : option A :=
  match l with
  | [] => None
  | Some w :: r => match sel (fw_get w) with Some x => Some x | None => first_defined sel r end
  | None :: r => first_defined sel r
  end.

Definition resolved_fractions (files : list units_file) (c : converter) (t : nat) (u : cunit) : fcfg :=
  let layers := fractions_layers files in
  let q := last_quantity (quantity u) layers in
  let s := system_setting layers (usystem u) in
  let a := last_set fr_all layers None in
  match last_unit_entry c t layers with
  | Some w =>
      let l := [Some w; q; s; a] in
      fh_define {| fh_enabled := first_defined fh_enabled l; fh_accuracy := first_defined fh_accuracy l;
                   fh_max_den := first_defined fh_max_den l; fh_max_whole := first_defined fh_max_whole l |}
  | None =>
      match q, s, a with
      | Some w, _, _ => fh_define (fw_get w)
      | None, Some w, _ => fh_define (fw_get w)
      | None, None, Some w => fh_define (fw_get w)
      | None, None, None => fh_define fh_none
      end
  end.


(* ---- the declared units, in the order the builder registers them -------- *)

Definition entries_of (d : units_decl) : list (option system * unit_entry) :=
  match d with
  | UUnified l => map (fun e => (None, e)) l
  | UBySystem m i u =>
      map (fun e => (Some Metric, e)) m ++ map (fun e => (Some Imperial, e)) i ++ map (fun e => (None, e)) u
  end.

Definition declared (files : list units_file) : list (pq * option system * unit_entry) :=
  flat_map (fun f =>
    flat_map (fun g => match qg_units g with
                       | Some d => map (fun se => (qg_quantity g, fst se, snd se)) (entries_of d)
                       | None => []
                       end) (uf_quantity f)) files.

Definition unit_of (d : pq * option system * unit_entry) : cunit :=
  let '(q, sys, e) := d in
  {| names := ue_names e; symbols := ue_symbols e; aliases := ue_aliases e; ratio := ue_ratio e;
     difference := ue_difference e; quantity := q; usystem := sys |}.

Definition extend_layers (files : list units_file) : list extend :=
  flat_map (fun f => match uf_extend f with Some x => [x] | None => [] end) files.

(* SI forms: every prefixed name / symbol of a unit declared with expand_si resolves to a unit
   whose ratio is the ratio of that unit times the power of ten of the prefix *)
Definition si_forms_ok (files : list units_file) (c : converter) : Prop :=
  forall j d u, nth_error (declared files) j = Some d -> ue_expand_si (snd d) = true ->
    nth_error (c_units c) j = Some u ->
    exists pt st, final_tables files = (Some pt, Some st) /\
      forall p pre n,
        (In pre (pt p) /\ In n (names u)) \/ (In pre (st p) /\ In n (symbols u)) ->
        exists t tu, find_unit c (pre ++ n) = Some t /\ nth_error (c_units c) t = Some tu /\
                     (ratio tu == ratio u * sipre_ratio p)%Q /\ quantity tu = quantity u.

(* extend blocks, in the situation where the rule can be stated without replaying the builder:
   one extend entry in all the layers, whose key is a key of a declared unit *)
Definition single_extend_ok (files : list units_file) (c : converter) : Prop :=
  forall p key e j d,
    extend_layers files = [{| ex_prec := p; ex_units := [(key, e)] |}] ->
    nth_error (declared files) j = Some d -> In key (all_keys (unit_of d)) ->
    nth_error (c_units c) j = Some (layered_unit (unit_of d) e p).

(* ---- comparison with a dump of a live converter ------------------------ *)

Record converter_dump := {
  d_units : list cunit; d_index : index; d_qindex : list (pq * list nat);
  d_best : list (pq * best_store); d_fractions : cfractions; d_default : system }.

(* |a - b| <= 2^-40 |b| *)
Definition q_close (a b : Q) : bool :=
  Qle_bool (Qabs (a - b)) ((1 # 1099511627776) * Qabs b).

Fixpoint list_eqb {A} (e : A -> A -> bool) (a b : list A) : bool :=
  match a, b with
  | [], [] => true
  | x :: a', y :: b' => e x y && list_eqb e a' b'
  | _, _ => false
  end.

Definition opt_eqb {A} (e : A -> A -> bool) (a b : option A) : bool :=
  match a, b with
  | None, None => true
  | Some x, Some y => e x y
  | _, _ => false
  end.

Definition system_eqb (a b : system) : bool :=
  match a, b with Metric, Metric | Imperial, Imperial => true | _, _ => false end.

Definition unit_close (a b : cunit) : bool :=
  list_eqb str_eqb (names a) (names b) && list_eqb str_eqb (symbols a) (symbols b)
  && list_eqb str_eqb (aliases a) (aliases b) && q_close (ratio a) (ratio b)
  && Qeq_bool (difference a) (difference b) && pq_eqb (quantity a) (quantity b)
  && opt_eqb system_eqb (usystem a) (usystem b).

Definition index_sub (a b : index) : bool :=
  forallb (fun kv => opt_eqb Nat.eqb (find (fst kv) b) (Some (snd kv))) a.

Definition best_list_close (a b : list (Q * nat)) : bool :=
  list_eqb (fun x y => q_close (fst x) (fst y) && Nat.eqb (snd x) (snd y)) a b.

Definition store_close (a b : best_store) : bool :=
  match a, b with
  | SUnified x, SUnified y => best_list_close x y
  | SBySystem m i, SBySystem m' i' => best_list_close m m' && best_list_close i i'
  | _, _ => false
  end.

Definition fcfg_eqb (a b : fcfg) : bool :=
  Bool.eqb (fc_enabled a) (fc_enabled b) && Qeq_bool (fc_accuracy a) (fc_accuracy b)
  && (fc_max_den a =? fc_max_den b) && (fc_max_whole a =? fc_max_whole b).

Definition qmap_sub (a b : list (pq * fcfg)) : bool :=
  forallb (fun kv => opt_eqb fcfg_eqb (qmap_get (fst kv) b) (Some (snd kv))) a.
Definition nmap_sub (a b : list (nat * fcfg)) : bool :=
  forallb (fun kv => opt_eqb fcfg_eqb (nmap_get (fst kv) b) (Some (snd kv))) a.

Definition fractions_eqb (a b : cfractions) : bool :=
  opt_eqb fcfg_eqb (cf_all a) (cf_all b) && opt_eqb fcfg_eqb (cf_metric a) (cf_metric b)
  && opt_eqb fcfg_eqb (cf_imperial a) (cf_imperial b)
  && qmap_sub (cf_quantity a) (cf_quantity b) && qmap_sub (cf_quantity b) (cf_quantity a)
  && nmap_sub (cf_unit a) (cf_unit b) && nmap_sub (cf_unit b) (cf_unit a).

(* the built converter and the dumped one: same units (ratios within 2^-40), the same
   finite map from keys to ids, the same quantity index, best lists with the same ids and
   thresholds within 2^-40, the same fractions table, the same default system *)
Definition conv_close (c : converter) (d : converter_dump) : bool :=
  list_eqb unit_close (c_units c) (d_units d)
  && index_sub (c_index c) (d_index d) && index_sub (d_index d) (c_index c)
  && forallb (fun q => opt_eqb (list_eqb Nat.eqb) (Some (c_qindex c q)) (qmap_get q (d_qindex d))) all_pq
  && forallb (fun q => opt_eqb store_close (Some (c_best c q)) (qmap_get q (d_best d))) all_pq
  && fractions_eqb (c_fractions c) (d_fractions d)
  && system_eqb (c_default c) (d_default d).

Definition builds_to (c : cfg) (files : list units_file) (d : converter_dump) : bool :=
  match build c files with
  | Done (ROk conv) => conv_close conv d
  | _ => false
  end.
