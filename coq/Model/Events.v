(* The parser's public event stream.
   Mirrors /repo/src/parser/mod.rs (enum Event 85-124, BlockKind 127-135) and
   /repo/src/parser/model.rs (Ingredient 53-63, Cookware 66-74, Timer 77-82,
   Quantity 85-90, QuantityValue 93-97, Modifiers 147-155, IntermediateData
   197-214).  Text is the model of src/text.rs in Model/PText.v.

   What is kept / dropped:
   - [Located] spans are kept on the three components (the analysis pass slices
     the input with them, event_consumer.rs:570); the spans of modifiers,
     quantities, units and intermediate data only feed diagnostics and are
     dropped (add fields when a model needs them).
   - [Value] numbers are exact rationals (f64 in the code); the analysis pass
     only asks [is_text].
   - [Modifiers] is a bitflags set over five flags: a record of five booleans,
     with [mods_bits]/[mods_of_bits] giving the u16 encoding.
   - [SourceDiag] payloads of Error/Warning are opaque naturals.
   This file contains data and total accessors only. *)
From Coq Require Import QArith_base ZArith.
From CL Require Export Base.Chars Model.PText.
Close Scope Q_scope.
Open Scope N_scope.

Inductive block_kind := BKStep | BKText.

Definition block_kind_eqb (a b : block_kind) : bool :=
  match a, b with BKStep, BKStep | BKText, BKText => true | _, _ => false end.

(* ---- Modifiers (bitflags u16: RECIPE 1, REF 2, HIDDEN 4, OPT 8, NEW 16) ---- *)
Record modifiers := {
  m_recipe : bool; m_ref : bool; m_hidden : bool; m_opt : bool; m_new : bool }.

Definition mods_empty : modifiers :=
  {| m_recipe := false; m_ref := false; m_hidden := false; m_opt := false; m_new := false |}.

Definition mods_map2 (f : bool -> bool -> bool) (a b : modifiers) : modifiers :=
  {| m_recipe := f (m_recipe a) (m_recipe b); m_ref := f (m_ref a) (m_ref b);
     m_hidden := f (m_hidden a) (m_hidden b); m_opt := f (m_opt a) (m_opt b);
     m_new := f (m_new a) (m_new b) |}.

Definition mods_or := mods_map2 orb.                              (* a | b  *)
Definition mods_and := mods_map2 andb.                            (* a & b  *)
Definition mods_diff := mods_map2 (fun x y => x && negb y).       (* a & !b *)

Definition mods_is_empty (a : modifiers) : bool :=
  negb (m_recipe a || m_ref a || m_hidden a || m_opt a || m_new a).

(* Modifiers::intersects *)
Definition mods_intersects (a b : modifiers) : bool := negb (mods_is_empty (mods_and a b)).

Definition M_ref_only : modifiers :=
  {| m_recipe := false; m_ref := true; m_hidden := false; m_opt := false; m_new := false |}.

Definition b2n (b : bool) (w : N) : N := if b then w else 0.

Definition mods_bits (a : modifiers) : N :=
  b2n (m_recipe a) 1 + b2n (m_ref a) 2 + b2n (m_hidden a) 4 + b2n (m_opt a) 8 + b2n (m_new a) 16.

Definition mods_of_bits (n : N) : modifiers :=
  {| m_recipe := N.testbit n 0; m_ref := N.testbit n 1; m_hidden := N.testbit n 2;
     m_opt := N.testbit n 3; m_new := N.testbit n 4 |}.

(* ---- intermediate preparation reference data ---- *)
Inductive ref_mode := RMNumber | RMRelative.
Inductive target_kind := TKStep | TKSection.
Record inter_data := { ir_mode : ref_mode; ir_kind : target_kind; ir_val : Z (* i16 *) }.

(* ---- quantities ---- *)
Inductive pvalue := VNumber (q : Q) | VRange (a b : Q) | VText (s : str).

Definition pvalue_is_text (v : pvalue) : bool :=
  match v with VText _ => true | _ => false end.

(* parser::QuantityValue: value + whether a scaling lock was written *)
Record pqvalue := { qv_value : pvalue; qv_lock : bool }.
(* parser::Quantity *)
Record pquantity := { pq_value : pqvalue; pq_unit : option text }.

Definition span := (N * N)%type.    (* byte offsets, start..end *)

Record p_ingredient := {
  pi_span : span; pi_mods : modifiers; pi_inter : option inter_data;
  pi_name : text; pi_alias : option text; pi_quantity : option pquantity; pi_note : option text }.

Record p_cookware := {
  pc_span : span; pc_mods : modifiers;
  pc_name : text; pc_alias : option text; pc_quantity : option pqvalue; pc_note : option text }.

Record p_timer := { pt_span : span; pt_name : option text; pt_quantity : option pquantity }.

Definition diag := N.   (* opaque *)

Inductive event :=
| EYaml (t : text)                      (* YAMLFrontMatter *)
| EMetadata (key value : text)
| ESection (name : option text)
| EStart (k : block_kind)
| EEnd (k : block_kind)
| EText (t : text)
| EIngredient (i : p_ingredient)
| ECookware (c : p_cookware)
| ETimer (t : p_timer)
| EError (d : diag)
| EWarning (d : diag).

(* ---- the grammar of event sequences PullParser emits -----------------------
   (parser/mod.rs: next_block/parse_block 259-383, step.rs:13-39,
   text_block.rs:5-23.)  Blocks are bracketed by Start k / End k and never
   nested; Text and components occur only inside a block; front matter,
   metadata and sections only between blocks; Error and Warning anywhere (they
   are queued by BlockParser::finish after the block's events, but nothing here
   depends on that).  A Text event is never empty (block_parser.rs:127-165 drops
   empty fragments, step.rs:32 and text_block.rs:17 drop fragment-less texts);
   intermediate data only comes with the REF modifier and a non-negative value
   (step.rs:154-158, 218-221: an int token); a timer has a name or a quantity
   (step.rs:475-486). *)
Inductive pstate := POut | PIn (k : block_kind).

Definition is_some {A} (o : option A) : bool := match o with Some _ => true | None => false end.
Definition is_nil {A} (l : list A) : bool := match l with [] => true | _ => false end.

Definition item_event_ok (e : event) : bool :=
  match e with
  | EText t => negb (is_nil (text_str t))
  | EIngredient i =>
      match pi_inter i with
      | Some d => m_ref (pi_mods i) && (0 <=? ir_val d)%Z
      | None => true
      end
  | ECookware _ => true
  | ETimer t => is_some (pt_name t) || is_some (pt_quantity t)
  | _ => false
  end.

Definition shape_step (p : pstate) (e : event) : option pstate :=
  match e with
  | EError _ | EWarning _ => Some p
  | EYaml _ | EMetadata _ _ | ESection _ => match p with POut => Some POut | PIn _ => None end
  | EStart k => match p with POut => Some (PIn k) | PIn _ => None end
  | EEnd k => match p with PIn k' => if block_kind_eqb k k' then Some POut else None | POut => None end
  | EText _ =>
      match p with PIn _ => if item_event_ok e then Some p else None | POut => None end
  | EIngredient _ | ECookware _ | ETimer _ =>     (* parse_text_block only emits Text *)
      match p with PIn BKStep => if item_event_ok e then Some p else None | _ => None end
  end.

Fixpoint shape_run (p : pstate) (evs : list event) : option pstate :=
  match evs with
  | [] => Some p
  | e :: r => match shape_step p e with Some p' => shape_run p' r | None => None end
  end.

(* a complete stream: every block closed *)
Definition parser_shaped (evs : list event) : Prop := shape_run POut evs = Some POut.
(* a prefix of a stream *)
Definition parser_shaped_prefix (evs : list event) : Prop := exists p, shape_run POut evs = Some p.
