(* Specification side of C13: the documented forms of the standard metadata
   values and what they mean, written without reference to the structure of
   /repo/src/metadata.rs (no splitting, no loops over pieces, no u32): printers
   from abstract forms to the documented spellings, and the meaning of a form as
   a rational number of minutes / a list of servings / a list of tags / a name
   and a URL / a locale.  Only the character classes of Base.Chars ([uni_ws] =
   char::is_whitespace, [ascii_ws]) are shared with the model. *)
From Coq Require Import String Ascii.
From Coq Require Export QArith Qround ZArith.
From CL Require Export Base.Chars.
Open Scope N_scope.

Module Doc.

(* ASCII string literals as lists of code points *)
Definition lit (s : string) : str := map N_of_ascii (list_ascii_of_string s).

(* ------------------------------------------------------------ numerals *)

(* canonical decimal numeral: "0" for 0, no leading zero otherwise.  The fuel
   (number of binary digits) always suffices: [print_nat_small] and
   [print_nat_step] in Proofs/StdMetaDocProofs.v are the defining equations. *)
Fixpoint digits_fuel (fuel : nat) (n : N) (acc : str) : str :=
  match fuel with
  | O => acc
  | S f => let acc' := (48 + n mod 10) :: acc in
           if n / 10 =? 0 then acc' else digits_fuel f (n / 10) acc'
  end.
Definition print_nat (n : N) : str := digits_fuel (S (N.to_nat (N.log2 n))) n [].

(* a spelling of n that Rust's u32::from_str documents: optional '+', any number
   of leading zeros, the canonical numeral *)
Definition numeral (s : str) (n : N) : Prop :=
  exists (plus : bool) (zeros : nat),
    s = (if plus then [43] else []) ++ repeat 48 zeros ++ print_nat n.

(* a decimal number: integer part and the digits after the point *)
Definition num := (N * list N)%type.
Definition num_ok (x : num) : bool := forallb (fun d => d <? 10) (snd x).
Fixpoint frac_value (ds : list N) : Q :=
  match ds with
  | [] => 0%Q
  | d :: r => ((inject_Z (Z.of_N d) + frac_value r) / (10 # 1))%Q
  end.
Definition num_value (x : num) : Q := (inject_Z (Z.of_N (fst x)) + frac_value (snd x))%Q.
Definition print_num (x : num) : str :=
  print_nat (fst x) ++ match snd x with [] => [] | ds => 46 :: map (fun d => 48 + d) ds end.

(* the value of any decimal text of digits and at most one point: `007`, `1.50`, `.5`, `5.` *)
Definition digits_value (ds : str) : N := fold_left (fun a c => a * 10 + (c - 48)) ds 0.
Definition all_digits (ds : str) : bool := forallb (fun c => (48 <=? c) && (c <=? 57)) ds.
Definition decimal (s : str) (v : Q) : Prop :=
  exists ip fp,
    ((s = ip /\ fp = []) \/ s = ip ++ 46 :: fp)
    /\ all_digits ip = true /\ all_digits fp = true /\ ip ++ fp <> []
    /\ (v == inject_Z (Z.of_N (digits_value ip)) + frac_value (map (fun c => (c - 48)%N) fp))%Q.

(* ------------------------------------------------------------ durations *)

(* compact form: `1h`, `30m`, `1h30m` *)
Inductive hm := H (h : N) | M (m : N) | HandM (h m : N).

(* `90` | compact | number-unit pairs `1 hour 30 min`, `1hour 30min`, `90 secs` *)
Inductive form :=
| Minutes (n : N)
| HM (x : hm)
| Pairs (ps : list (num * str)).

Definition hm_minutes (x : hm) : N :=
  match x with H h => 60 * h | M m => m | HandM h m => 60 * h + m end.

(* minutes per unit of the units every converter knows (the hard-coded table the
   empty converter falls back to); a converter's own time units give another
   [per], see [Proofs.StdMetaDocProofs.unit_means] *)
Definition unit_table : list (list str * Q) :=
  [ (map lit ["s"; "sec"; "secs"; "second"; "seconds"]%string, 1 # 60);
    (map lit ["m"; "min"; "minute"; "minutes"]%string, 1);
    (map lit ["h"; "hour"; "hours"]%string, 60 # 1);
    (map lit ["d"; "day"; "days"]%string, 1440 # 1) ]%Q.

Fixpoint lookup_unit (t : list (list str * Q)) (k : str) : option Q :=
  match t with
  | [] => None
  | (keys, r) :: t' => if existsb (fun x => str_eqb x k) keys then Some r else lookup_unit t' k
  end.
Definition per_default (k : str) : option Q := lookup_unit unit_table k.

(* minutes per unit under the hard-coded table (0 for an unknown unit) *)
Definition per_hard (k : str) : Q := match per_default k with Some r => r | None => 0%Q end.

Definition pairs_minutes (per : str -> Q) (ps : list (num * str)) : Q :=
  fold_right (fun p acc => (num_value (fst p) * per (snd p) + acc)%Q) 0%Q ps.

(* the meaning of a form: a rational number of minutes *)
Definition minutes (per : str -> Q) (f : form) : Q :=
  match f with
  | Minutes n => inject_Z (Z.of_N n)
  | HM x => inject_Z (Z.of_N (hm_minutes x))
  | Pairs ps => pairs_minutes per ps
  end.

(* rounding of a non-negative total to the nearest minute, halves up (for the
   non-negative totals of the documented forms this is f64::round) *)
Definition round (q : Q) : Z := Qfloor (q + (1 # 2))%Q.

Definition print_hm (x : hm) : str :=
  match x with
  | H h => print_nat h ++ [104]
  | M m => print_nat m ++ [109]
  | HandM h m => print_nat h ++ [104] ++ print_nat m ++ [109]
  end.

(* blanks come from a tape: for every pair the blanks between number and unit
   (may be empty: `1hour`) and the blanks after the pair (not empty; unused after
   the last pair).  A tape that runs out means `1 hour 30 min` style. *)
Definition tape := list (str * str).
Definition blank (b : str) : bool := forallb uni_ws b.
Definition tape_ok (t : tape) : bool :=
  forallb (fun gs => blank (fst gs) && blank (snd gs) && negb (match snd gs with [] => true | _ => false end)) t.

Fixpoint print_pairs (ps : list (num * str)) (t : tape) : str :=
  match ps with
  | [] => []
  | p :: r =>
    let gap := match t with gs :: _ => fst gs | [] => [32] end in
    let sep := match t with gs :: _ => snd gs | [] => [32] end in
    print_num (fst p) ++ gap ++ snd p
    ++ match r with [] => [] | _ => sep ++ print_pairs r (tl t) end
  end.

(* a unit key as it can be written after a number: not empty, does not start
   like a number, no white space inside *)
Definition key_ok (k : str) : bool :=
  match k with
  | [] => false
  | x :: _ => negb (((48 <=? x) && (x <=? 57)) || (x =? 46)) && negb (existsb uni_ws k)
  end.

Definition print_form (f : form) (t : tape) : str :=
  match f with
  | Minutes n => print_nat n
  | HM x => print_hm x
  | Pairs ps => print_pairs ps t
  end.

(* a string in compact form up to the spellings of the two numbers *)
Definition hm_spelled (x : hm) (s : str) : Prop :=
  match x with
  | H h => exists a, numeral a h /\ s = a ++ [104]
  | M m => exists b, numeral b m /\ s = b ++ [109]
  | HandM h m => exists a b, numeral a h /\ numeral b m /\ s = a ++ [104] ++ b ++ [109]
  end.

(* ------------------------------------------------------------ words and number-unit groups *)

Definition num_char (c : N) : bool := ((48 <=? c) && (c <=? 57)) || (c =? 46).

(* the white-space separated words of a string *)
Inductive ws_words : str -> list str -> Prop :=
| ww_nil b : blank b = true -> ws_words b []
| ww_cons b w rest l :
    blank b = true -> w <> [] -> forallb (fun c => negb (uni_ws c)) w = true ->
    match rest with [] => True | c :: _ => uni_ws c = true end ->
    ws_words rest l -> ws_words (b ++ w ++ rest) (w :: l).

(* words read as number-unit pairs: the unit attached (`2h`: the number is the longest prefix of
   digits and points) or in the next word (`2 h`) *)
Inductive grouped : list str -> list (str * str) -> Prop :=
| g_nil : grouped [] []
| g_attached num x unit rest l :
    forallb num_char num = true -> num_char x = false -> grouped rest l ->
    grouped ((num ++ x :: unit) :: rest) ((num, x :: unit) :: l)
| g_separate num unit rest l :
    forallb num_char num = true -> grouped rest l ->
    grouped (num :: unit :: rest) ((num, unit) :: l).

(* ------------------------------------------------------------ lists written in one string *)

(* pieces joined by a separator character: `2|4|8`, `vegan, easy` *)
Fixpoint join (sep : N) (pieces : list str) : str :=
  match pieces with
  | [] => []
  | [p] => p
  | p :: r => p ++ sep :: join sep r
  end.
Definition no_sep (sep : N) (pieces : list str) : Prop :=
  forall p, In p pieces -> ~ In sep p.

(* l keeps some elements of m, in their order *)
Inductive subseq {A} : list A -> list A -> Prop :=
| sub_nil : subseq [] []
| sub_skip x l m : subseq l m -> subseq l (x :: m)
| sub_keep x l m : subseq l m -> subseq (x :: l) (x :: m).

(* ------------------------------------------------------------ tags *)

(* the tags of a list of entries: every non-empty entry, once, in the order of the entries *)
Definition tags_of (entries result : list str) : Prop :=
  NoDup result /\ ~ In [] result
  /\ (forall x, In x result <-> x <> [] /\ In x entries)
  /\ subseq result entries.

(* ------------------------------------------------------------ servings *)

(* one entry of a servings string: blanks, the number, then nothing or text that does not
   continue the number (`5 cups worth`, `12 servings`), blanks *)
Definition ascii_alnum (c : N) : bool :=
  ((48 <=? c) && (c <=? 57)) || ((65 <=? c) && (c <=? 90)) || ((97 <=? c) && (c <=? 122)).
Definition text_ok (text : str) : bool :=
  match text with [] => true | c :: _ => negb (ascii_alnum c) end.
Definition print_serving (pad1 : str) (n : N) (text pad2 : str) : str :=
  pad1 ++ print_nat n ++ text ++ pad2.
Definition servings (ns : list N) (result : option (list N)) : Prop :=
  (NoDup ns /\ result = Some ns) \/ (~ NoDup ns /\ result = None).

(* any entry with a leading number: digits (leading zeros allowed), then nothing or text that does
   not continue the word; in a `|`-string the entry may start with blanks *)
Definition leading (e : str) (n : N) : Prop :=
  exists z rest, e = repeat 48 z ++ print_nat n ++ rest /\ n < 4294967296 /\ text_ok rest = true.
Definition leading_padded (e : str) (n : N) : Prop :=
  exists pad e', e = pad ++ e' /\ blank pad = true /\ leading e' n.

(* ------------------------------------------------------------ locale *)

Definition ascii_letter (c : N) : bool :=
  ((65 <=? c) && (c <=? 90)) || ((97 <=? c) && (c <=? 122)).
(* `ll` or `ll_CC` *)
Inductive locale : str -> str -> option str -> Prop :=
| loc_lang a b :
    ascii_letter a = true -> ascii_letter b = true -> locale [a; b] [a; b] None
| loc_dialect a b c d :
    ascii_letter a = true -> ascii_letter b = true -> ascii_letter c = true -> ascii_letter d = true ->
    locale [a; b; 95; c; d] [a; b] (Some [c; d]).

(* ------------------------------------------------------------ name and URL *)

(* `scheme://host` or `scheme://host/...`: the scheme alphabetic (it may be empty, `://x` is
   accepted) and without a colon, the host not empty, without `/` and without white space *)
Definition valid_url (alpha : N -> bool) (u : str) : Prop :=
  exists scheme host rest,
    u = scheme ++ [58; 47; 47] ++ host ++ rest
    /\ forallb alpha scheme = true /\ ~ In 58 scheme
    /\ host <> [] /\ ~ In 47 host /\ forallb (fun c => negb (uni_ws c)) host = true
    /\ (rest = [] \/ exists r, rest = 47 :: r).

(* t is s without the white space at both ends *)
Definition trimmed (s t : str) : Prop :=
  exists a b, s = a ++ t ++ b /\ blank a = true /\ blank b = true
              /\ match t with [] => True | c :: _ => uni_ws c = false end
              /\ match rev t with [] => True | c :: _ => uni_ws c = false end.
(* a field of the result: the trimmed text, absent when nothing is left *)
Definition cleaned (s : str) (o : option str) : Prop :=
  exists t, trimmed s t /\ o = match t with [] => None | _ => Some t end.

(* `Name <Url>` (also `<Url>`: empty name) followed by ASCII blanks *)
Definition print_bracket (name url pad : str) : str := name ++ [60] ++ url ++ [62] ++ pad.
Definition no_angle (s : str) : Prop := ~ In 60 s /\ ~ In 62 s.
Definition bracket_form (alpha : N -> bool) (s name url : str) : Prop :=
  exists pad u, s = print_bracket name url pad /\ ~ In 60 name /\ no_angle url
                /\ forallb ascii_ws pad = true /\ trimmed url u /\ valid_url alpha u.

(* the documented reading: `Name <Url>` / `<Url>` with a valid URL give name and URL; any other
   string (no brackets, or an invalid URL in them) is the URL when it is a valid one, else it
   is the name, as a whole *)
Inductive name_url (alpha : N -> bool) (s : str) : option str -> option str -> Prop :=
| nu_both name url n u :
    bracket_form alpha s name url -> cleaned name n -> cleaned url u -> name_url alpha s n u
| nu_url u :
    (forall name url, ~ bracket_form alpha s name url) -> valid_url alpha s -> cleaned s u ->
    name_url alpha s None u
| nu_name n :
    (forall name url, ~ bracket_form alpha s name url) -> ~ valid_url alpha s -> cleaned s n ->
    name_url alpha s n None.

End Doc.
