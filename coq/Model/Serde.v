(* A generic model of the serde data model as far as cooklang's recipe types use it,
   independent of cooklang: type descriptors [desc], values [val], JSON trees [json],
   [ser : desc -> val -> option json], [de : desc -> json -> option val], the decidable
   well-formedness [wf_desc] and the typing predicate [typed].

   What is modelled (serde_derive 1.0.217 `ser.rs` / `de.rs`, serde_json 1.0.135, bitflags 2.7.0
   `parser.rs`, serde_yaml 0.9.34 `value/{ser,de}.rs`, `mapping.rs`):
   * struct with ordered named fields -> JSON object in declaration order; a `flatten` field
     contributes the entries of the object its value serialises to; deserialisation looks every
     field up by name, ignores unknown keys (no `deny_unknown_fields` on the recipe types), takes
     a missing `Option` field as `None`, and hands the entries that are not own field names to the
     flattened field;
   * Option (None = null), Vec (array), newtype struct (transparent);
   * enum, externally tagged (unit variant = string, payload variant = {"Name": payload}),
     internally tagged ({tag: "Name", ...fields of the payload}), adjacently tagged
     ({tag: "Name", content: payload}); a newtype variant whose only field is `#[serde(skip)]`
     is serialised as a unit variant and deserialised to the `Default` of the payload;
   * rename_all = camelCase / snake_case / ... : applied by the functions at the end of this file,
     which the regenerated descriptor file calls on the Rust identifiers;
   * bitflags-as-string ("A | B", "" for the empty set; parser: split on '|', trim, names);
   * numbers are opaque atoms: the text serde_json prints.  [num_ok] is the lexical class a number
     kind accepts; f64 accepts only texts with a fraction or an exponent, which is what serde_json
     prints for an f64 (the implementation also accepts `1` for an f64 - the model is defined on
     canonical atoms only and the correspondence never feeds it anything else);
   * serde_yaml::Value / Mapping as JSON: string keys as they are, number and bool keys as their
     text, other keys make serialisation fail; a tagged value becomes the one-entry object
     {"!tag": value}; reading JSON gives null/bool/number/string/sequence/mapping-with-string-keys
     and fails on a duplicate key.
   Not modelled (wf_desc = false, so a descriptor using it breaks C15_descriptors_wf): untagged
   enums, `skip` on a struct field, more than one `flatten` per struct, maps other than YAML.
   Not modelled in [de] (implementation accepts more): sequences for structs, {"Unit": null} for
   an externally tagged unit variant, [tag, content] pairs, hex tokens in flag strings, integer
   literals for f64, duplicate keys in a struct object (first occurrence is used). *)
From CL Require Export Base.Chars.

Inductive json :=
| JNull | JBool (b : bool) | JNum (a : str) | JStr (s : str)
| JArr (l : list json) | JObj (m : list (str * json)).

Inductive yaml :=
| YNull | YBool (b : bool) | YNum (a : str) | YStr (s : str)
| YSeq (l : list yaml) | YMap (m : list (yaml * yaml)) | YTag (t : str) (y : yaml).

Inductive numkind := NF64 | NUInt (bits : N) | NSInt (bits : N).
Inductive fkind := FNormal | FFlatten | FSkip.
Inductive repr := RExternal | RInternal (tag : str) | RAdjacent (tag content : str) | RUntagged.

(* field: (Rust identifier, serialised name, kind, type); variant: (Rust identifier, serialised
   name, payload) with payload DUnit = unit variant, DSkip = newtype variant whose field is skipped,
   anything else = newtype variant of that type (a struct variant is a newtype of a DStruct: the
   JSON is the same). *)
Inductive desc :=
| DUnit | DSkip (serializable : bool)
| DBool | DNum (k : numkind) | DStr
| DOpt (d : desc) | DSeq (d : desc) | DNew (d : desc)
| DStruct (fs : list (str * str * fkind * desc))
| DEnum (r : repr) (vs : list (str * str * desc))
| DFlags (fl : list (str * N))
| DYaml (top_map : bool).

Inductive val :=
| VUnit | VOpaque (n : N) | VBool (b : bool) | VNum (a : str) | VStr (s : str)
| VNone | VSome (v : val) | VSeq (l : list val) | VRec (l : list val)
| VVar (i : nat) (p : val) | VFlags (l : list bool) | VYaml (y : yaml).

(* ---------------------------------------------------------------- small helpers *)

Fixpoint sequence {A} (l : list (option A)) : option (list A) :=
  match l with
  | [] => Some []
  | Some a :: r => match sequence r with Some r' => Some (a :: r') | None => None end
  | None :: _ => None
  end.

Fixpoint lookup {A} (k : str) (m : list (str * A)) : option A :=
  match m with
  | [] => None
  | (k', a) :: r => if str_eqb k' k then Some a else lookup k r
  end.

Fixpoint mem (k : str) (l : list str) : bool :=
  match l with [] => false | x :: r => str_eqb x k || mem k r end.

Fixpoint nodupb (l : list str) : bool :=
  match l with [] => true | x :: r => negb (mem x r) && nodupb r end.

Definition remove_key {A} (k : str) (m : list (str * A)) : list (str * A) :=
  filter (fun kv => negb (str_eqb (fst kv) k)) m.

Fixpoint find_var {A} (n : str) (cvs : list (str * A)) (i : nat) : option (nat * A) :=
  match cvs with
  | [] => None
  | (m, a) :: r => if str_eqb m n then Some (i, a) else find_var n r (S i)
  end.

Fixpoint concat_opt (l : list (option (list str))) : option (list str) :=
  match l with
  | [] => Some []
  | Some a :: r => match concat_opt r with Some b => Some (a ++ b) | None => None end
  | None :: _ => None
  end.

(* ---------------------------------------------------------------- numbers (lexical classes) *)

Definition is_digit (c : N) : bool := (48 <=? c) && (c <=? 57).

Fixpoint dec_val (s : str) (acc : N) : N :=
  match s with [] => acc | c :: r => dec_val r (acc * 10 + (c - 48)) end.

Definition uint_text (a : str) : bool :=
  match a with
  | [] => false
  | c :: r => if c =? 48 then match r with [] => true | _ => false end
              else is_digit c && forallb is_digit r
  end.

(* what serde_json prints for a finite f64: [-]digits(.digits)?(e[-]digits)? with a '.' or an 'e' *)
Definition float_char (c : N) : bool := is_digit c || (c =? 45) || (c =? 46) || (c =? 101) || (c =? 43).
Definition float_text (a : str) : bool :=
  forallb float_char a && existsb (fun c => (c =? 46) || (c =? 101)) a
  && match a with c :: _ => is_digit c || (c =? 45) | [] => false end.

Definition number_text (a : str) : bool :=
  match a with
  | c :: r => if c =? 45 then uint_text r || float_text a else uint_text a || float_text a
  | [] => false
  end.

Definition num_ok (k : numkind) (a : str) : bool :=
  match k with
  | NF64 => float_text a
  | NUInt b => uint_text a && (dec_val a 0 <? 2 ^ b)
  | NSInt b =>
      match a with
      | c :: r => if c =? 45 then uint_text r && (0 <? dec_val r 0) && (dec_val r 0 <=? 2 ^ (b - 1))
                  else uint_text a && (dec_val a 0 <? 2 ^ (b - 1))
      | [] => false
      end
  end.

(* ---------------------------------------------------------------- YAML value as JSON *)

Definition s_true : str := [116; 114; 117; 101].
Definition s_false : str := [102; 97; 108; 115; 101].

(* serde_json MapKeySerializer: strings, integers, floats and bools are accepted as keys *)
Definition ykey (y : yaml) : option str :=
  match y with
  | YStr s => Some s
  | YNum a => Some a
  | YBool b => Some (if b then s_true else s_false)
  | _ => None
  end.

Fixpoint yser (y : yaml) : option json :=
  match y with
  | YNull => Some JNull
  | YBool b => Some (JBool b)
  | YNum a => Some (JNum a)
  | YStr s => Some (JStr s)
  | YSeq l => option_map JArr (sequence (map yser l))
  | YMap m =>
      option_map JObj
        (sequence (map (fun kv => match ykey (fst kv), yser (snd kv) with
                                  | Some k, Some j => Some (k, j)
                                  | _, _ => None
                                  end) m))
  | YTag t y' => option_map (fun j => JObj [(33 :: t, j)]) (yser y')
  end.

Fixpoint yde (j : json) : option yaml :=
  match j with
  | JNull => Some YNull
  | JBool b => Some (YBool b)
  | JNum a => Some (YNum a)
  | JStr s => Some (YStr s)
  | JArr l => option_map YSeq (sequence (map yde l))
  | JObj m =>
      if nodupb (map fst m)
      then option_map YMap (sequence (map (fun kv => option_map (fun y => (YStr (fst kv), y)) (yde (snd kv))) m))
      else None
  end.

Definition ystr_key (y : yaml) : option str := match y with YStr s => Some s | _ => None end.

(* string keys only (distinct, as in any Mapping), no tags *)
Fixpoint json_safe (y : yaml) : bool :=
  match y with
  | YNull | YBool _ | YStr _ => true
  | YNum a => number_text a
  | YSeq l => forallb json_safe l
  | YMap m =>
      forallb (fun kv => match ystr_key (fst kv) with Some _ => json_safe (snd kv) | None => false end) m
      && match sequence (map (fun kv => ystr_key (fst kv)) m) with Some ks => nodupb ks | None => false end
  | YTag _ _ => false
  end.

Definition is_ymap (y : yaml) : bool := match y with YMap _ => true | _ => false end.

(* ---------------------------------------------------------------- bitflags as a string *)

Fixpoint split_bar (s : str) : list str :=
  match s with
  | [] => [[]]
  | c :: r =>
      if c =? 124 then [] :: split_bar r
      else match split_bar r with
           | l :: ls => (c :: l) :: ls
           | [] => [[c]]
           end
  end.

Fixpoint drop_ws (s : str) : str :=
  match s with c :: r => if uni_ws c then drop_ws r else s | [] => [] end.

Definition trim (s : str) : str := rev (drop_ws (rev (drop_ws s))).

Definition sep_bar : str := [32; 124; 32].

Fixpoint join_bar (l : list str) : str :=
  match l with
  | [] => []
  | a :: r => match r with [] => a | _ => a ++ sep_bar ++ join_bar r end
  end.

Fixpoint select {A} (l : list A) (bs : list bool) : list A :=
  match l, bs with
  | a :: l', b :: bs' => if b then a :: select l' bs' else select l' bs'
  | _, _ => []
  end.

Definition ser_flags (fl : list (str * N)) (bs : list bool) : option json :=
  if Nat.eqb (length bs) (length fl) then Some (JStr (join_bar (select (map fst fl) bs))) else None.

Definition starts_0x (s : str) : bool :=
  match s with a :: b :: _ => (a =? 48) && (b =? 120) | _ => false end.

Definition de_flags (fl : list (str * N)) (s : str) : option (list bool) :=
  match trim s with
  | [] => Some (map (fun _ => false) fl)
  | _ =>
      let toks := map trim (split_bar s) in
      if forallb (fun t => mem t (map fst fl) && negb (starts_0x t)) toks
      then Some (map (fun f => mem (fst f) toks) fl)
      else None
  end.

Definition clean_name (n : str) : bool :=
  match n with
  | [] => false
  | _ => forallb (fun c => negb (uni_ws c) && negb (c =? 124)) n && negb (starts_0x n)
  end.

Definition pow2b (b : N) : bool := (0 <? b) && (N.land b (b - 1) =? 0).

Fixpoint nodupN (l : list N) : bool :=
  match l with [] => true | x :: r => negb (existsb (N.eqb x) r) && nodupN r end.

Definition wf_flags (fl : list (str * N)) : bool :=
  forallb (fun f => clean_name (fst f) && pow2b (snd f)) fl && nodupb (map fst fl) && nodupN (map snd fl).

(* ---------------------------------------------------------------- structs *)

Definition ocons {A} (a : option A) (r : option (list A)) : option (list A) :=
  match a, r with Some x, Some l => Some (x :: l) | _, _ => None end.

Fixpoint ser_fields (cs : list (str * fkind * (val -> option json))) (vs : list val)
  : option (list (str * json)) :=
  match cs, vs with
  | [], [] => Some []
  | (n, k, f) :: cs', v :: vs' =>
      match k with
      | FNormal => match f v, ser_fields cs' vs' with
                   | Some j, Some m => Some ((n, j) :: m)
                   | _, _ => None
                   end
      | FFlatten => match f v, ser_fields cs' vs' with
                    | Some (JObj m1), Some m => Some (m1 ++ m)
                    | _, _ => None
                    end
      | FSkip => ser_fields cs' vs'
      end
  | _, _ => None
  end.

Fixpoint de_fields (cs : list (str * fkind * bool * (json -> option val)))
         (m rest : list (str * json)) : option (list val) :=
  match cs with
  | [] => Some []
  | (n, k, io, f) :: cs' =>
      ocons (match k with
             | FNormal => match lookup n m with
                          | Some j => f j
                          | None => if io then Some VNone else None
                          end
             | FFlatten => f (JObj rest)
             | FSkip => Some (VOpaque 0)
             end)
            (de_fields cs' m rest)
  end.

Definition normal_names {A} (fs : list (str * str * fkind * A)) : list str :=
  concat (map (fun f => match f with (_, n, k, _) => match k with FNormal => [n] | _ => [] end end) fs).

Definition is_opt (d : desc) : bool := match d with DOpt _ => true | _ => false end.

(* ---------------------------------------------------------------- enums *)

Definition unit_payload (d : desc) : option val :=
  match d with DUnit => Some VUnit | DSkip _ => Some (VOpaque 0) | _ => None end.

Definition ser_variant (r : repr) (n : str) (unitlike : bool) (jp : option json) : option json :=
  match r with
  | RExternal =>
      if unitlike then Some (JStr n) else option_map (fun j => JObj [(n, j)]) jp
  | RInternal t =>
      if unitlike then Some (JObj [(t, JStr n)])
      else match jp with Some (JObj m) => Some (JObj ((t, JStr n) :: m)) | _ => None end
  | RAdjacent t c =>
      if unitlike then Some (JObj [(t, JStr n)])
      else option_map (fun j => JObj [(t, JStr n); (c, j)]) jp
  | RUntagged => None
  end.

Definition de_found (x : option (nat * (option val * (json -> option val)))) (content : option json)
  : option val :=
  match x with
  | Some (i, (Some u, _)) => Some (VVar i u)
  | Some (i, (None, f)) => match content with Some j => option_map (VVar i) (f j) | None => None end
  | None => None
  end.

Definition de_enum (r : repr) (cvs : list (str * (option val * (json -> option val)))) (j : json)
  : option val :=
  match r with
  | RExternal =>
      match j with
      | JStr s => match find_var s cvs 0 with
                  | Some (i, (Some u, _)) => Some (VVar i u)
                  | _ => None
                  end
      | JObj [(k, j')] => match find_var k cvs 0 with
                          | Some (i, (None, f)) => option_map (VVar i) (f j')
                          | _ => None
                          end
      | _ => None
      end
  | RInternal t =>
      match j with
      | JObj m => match lookup t m with
                  | Some (JStr s) => de_found (find_var s cvs 0) (Some (JObj (remove_key t m)))
                  | _ => None
                  end
      | _ => None
      end
  | RAdjacent t c =>
      match j with
      | JObj m => match lookup t m with
                  | Some (JStr s) => de_found (find_var s cvs 0) (lookup c m)
                  | _ => None
                  end
      | _ => None
      end
  | RUntagged => None
  end.

(* ---------------------------------------------------------------- ser / de / norm *)

Definition is_unitlike (d : desc) : bool := match d with DUnit | DSkip _ => true | _ => false end.

Fixpoint ser (d : desc) (v : val) {struct d} : option json :=
  match d with
  | DUnit => match v with VUnit => Some JNull | _ => None end
  | DSkip _ => None
  | DBool => match v with VBool b => Some (JBool b) | _ => None end
  | DNum _ => match v with VNum a => Some (JNum a) | _ => None end
  | DStr => match v with VStr s => Some (JStr s) | _ => None end
  | DOpt d' => match v with VNone => Some JNull | VSome v' => ser d' v' | _ => None end
  | DSeq d' => match v with VSeq l => option_map JArr (sequence (map (ser d') l)) | _ => None end
  | DNew d' => ser d' v
  | DStruct fs =>
      match v with
      | VRec vs => option_map JObj
                     (ser_fields (map (fun f => match f with (_, n, k, d') => (n, k, ser d') end) fs) vs)
      | _ => None
      end
  | DEnum r vs =>
      match v with
      | VVar i p =>
          match nth_error (map (fun x => match x with (_, n, pd) => (n, is_unitlike pd, ser pd) end) vs) i with
          | Some (n, u, f) => ser_variant r n u (f p)
          | None => None
          end
      | _ => None
      end
  | DFlags fl => match v with VFlags bs => ser_flags fl bs | _ => None end
  | DYaml tm => match v with
                | VYaml y => if tm && negb (is_ymap y) then None else yser y
                | _ => None
                end
  end.

Fixpoint de (d : desc) (j : json) {struct d} : option val :=
  match d with
  | DUnit => match j with JNull => Some VUnit | _ => None end
  | DSkip _ => None
  | DBool => match j with JBool b => Some (VBool b) | _ => None end
  | DNum k => match j with JNum a => if num_ok k a then Some (VNum a) else None | _ => None end
  | DStr => match j with JStr s => Some (VStr s) | _ => None end
  | DOpt d' => match j with JNull => Some VNone | _ => option_map VSome (de d' j) end
  | DSeq d' => match j with JArr l => option_map VSeq (sequence (map (de d') l)) | _ => None end
  | DNew d' => de d' j
  | DStruct fs =>
      match j with
      | JObj m =>
          let own := normal_names fs in
          option_map VRec
            (de_fields (map (fun f => match f with (_, n, k, d') => (n, k, is_opt d', de d') end) fs)
                       m (filter (fun kv => negb (mem (fst kv) own)) m))
      | _ => None
      end
  | DEnum r vs =>
      de_enum r (map (fun x => match x with (_, n, pd) => (n, (unit_payload pd, de pd)) end) vs) j
  | DFlags fl => match j with JStr s => option_map VFlags (de_flags fl s) | _ => None end
  | DYaml tm => match j with
                | JObj _ => option_map VYaml (yde j)
                | _ => if tm then None else option_map VYaml (yde j)
                end
  end.

Fixpoint zipapp {A B} (fs : list (A -> B)) (xs : list A) : list B :=
  match fs, xs with
  | f :: fs', x :: xs' => f x :: zipapp fs' xs'
  | _, _ => []
  end.

(* the value with every skipped payload reset to its Default *)
Fixpoint norm (d : desc) (v : val) {struct d} : val :=
  match d with
  | DSkip _ => VOpaque 0
  | DOpt d' => match v with VSome v' => VSome (norm d' v') | _ => v end
  | DSeq d' => match v with VSeq l => VSeq (map (norm d') l) | _ => v end
  | DNew d' => norm d' v
  | DStruct fs =>
      match v with
      | VRec vs => VRec (zipapp (map (fun f => match f with (_, _, _, d') => norm d' end) fs) vs)
      | _ => v
      end
  | DEnum r vs =>
      match v with
      | VVar i p => match nth_error (map (fun x => match x with (_, _, pd) => norm pd end) vs) i with
                    | Some f => VVar i (f p)
                    | None => v
                    end
      | _ => v
      end
  | _ => v
  end.

(* ---------------------------------------------------------------- typing *)

Inductive typed : desc -> val -> Prop :=
| T_unit : typed DUnit VUnit
| T_skip s n : typed (DSkip s) (VOpaque n)
| T_bool b : typed DBool (VBool b)
| T_num k a : num_ok k a = true -> typed (DNum k) (VNum a)
| T_str s : typed DStr (VStr s)
| T_none d : typed (DOpt d) VNone
| T_some d v : typed d v -> typed (DOpt d) (VSome v)
| T_seq d l : Forall (typed d) l -> typed (DSeq d) (VSeq l)
| T_new d v : typed d v -> typed (DNew d) v
| T_struct fs vs : Forall2 (fun f v => typed (snd f) v) fs vs -> typed (DStruct fs) (VRec vs)
| T_enum r vs i x p : nth_error vs i = Some x -> typed (snd x) p -> typed (DEnum r vs) (VVar i p)
| T_flags fl bs : length bs = length fl -> typed (DFlags fl) (VFlags bs)
| T_yaml tm y : json_safe y = true -> (tm = true -> is_ymap y = true) -> typed (DYaml tm) (VYaml y).

(* computable version, used by the runner on every dumped value *)
Fixpoint forallb2 {A B} (f : A -> B -> bool) (l : list A) (r : list B) : bool :=
  match l, r with
  | [], [] => true
  | a :: l', b :: r' => f a b && forallb2 f l' r'
  | _, _ => false
  end.

Fixpoint typedb (d : desc) (v : val) {struct d} : bool :=
  match d with
  | DUnit => match v with VUnit => true | _ => false end
  | DSkip _ => match v with VOpaque _ => true | _ => false end
  | DBool => match v with VBool _ => true | _ => false end
  | DNum k => match v with VNum a => num_ok k a | _ => false end
  | DStr => match v with VStr _ => true | _ => false end
  | DOpt d' => match v with VNone => true | VSome v' => typedb d' v' | _ => false end
  | DSeq d' => match v with VSeq l => forallb (typedb d') l | _ => false end
  | DNew d' => typedb d' v
  | DStruct fs =>
      match v with
      | VRec vs => forallb2 (fun f v => f v) (map (fun f => match f with (_, _, _, d') => typedb d' end) fs) vs
      | _ => false
      end
  | DEnum r vs =>
      match v with
      | VVar i p => match nth_error (map (fun x => match x with (_, _, pd) => typedb pd end) vs) i with
                    | Some f => f p
                    | None => false
                    end
      | _ => false
      end
  | DFlags fl => match v with VFlags bs => Nat.eqb (length bs) (length fl) | _ => false end
  | DYaml tm => match v with VYaml y => json_safe y && (negb tm || is_ymap y) | _ => false end
  end.

(* ---------------------------------------------------------------- well-formedness *)

Fixpoint nullable (d : desc) : bool :=
  match d with
  | DUnit | DOpt _ => true
  | DYaml tm => negb tm
  | DNew d' => nullable d'
  | _ => false
  end.

(* the keys an object produced by [ser d] can have; None = [ser d] does not always give an object *)
Fixpoint obj_keys (d : desc) : option (list str) :=
  match d with
  | DNew d' => obj_keys d'
  | DStruct fs =>
      concat_opt (map (fun f => match f with
                                | (_, n, k, d') =>
                                    match k with
                                    | FNormal => Some [n]
                                    | FFlatten => obj_keys d'
                                    | FSkip => Some []
                                    end
                                end) fs)
  | DEnum r vs =>
      match r with
      | RInternal t =>
          match concat_opt (map (fun x => match x with
                                          | (_, _, pd) => if is_unitlike pd then Some [] else obj_keys pd
                                          end) vs) with
          | Some ks => Some (t :: ks)
          | None => None
          end
      | RAdjacent t c => Some [t; c]
      | _ => None
      end
  | _ => None
  end.

Definition count_flatten {A} (fs : list (str * str * fkind * A)) : nat :=
  length (filter (fun f => match f with (_, _, k, _) => match k with FFlatten => true | _ => false end end) fs).

Definition no_skip_field {A} (fs : list (str * str * fkind * A)) : bool :=
  forallb (fun f => match f with (_, _, k, _) => match k with FSkip => false | _ => true end end) fs.

Definition wf_repr (r : repr) (vs : list (str * str * desc)) : bool :=
  match r with
  | RExternal => true
  | RInternal t =>
      forallb (fun x => match x with
                        | (_, _, pd) =>
                            is_unitlike pd || match obj_keys pd with Some ks => negb (mem t ks) | None => false end
                        end) vs
  | RAdjacent t c => negb (str_eqb t c)
  | RUntagged => false
  end.

Fixpoint wf_desc (d : desc) : bool :=
  match d with
  | DUnit | DBool | DNum _ | DStr | DYaml _ => true
  | DSkip _ => false                      (* only as a variant payload, see DEnum *)
  | DOpt d' => negb (nullable d') && wf_desc d'
  | DSeq d' => wf_desc d'
  | DNew d' => wf_desc d'
  | DStruct fs =>
      forallb (fun f => match f with (_, _, _, d') => wf_desc d' end) fs
      && no_skip_field fs
      && Nat.leb (count_flatten fs) 1
      && match obj_keys (DStruct fs) with Some ks => nodupb ks | None => false end
  | DEnum r vs =>
      forallb (fun x => match x with
                        | (_, _, pd) => match pd with
                                        | DSkip s => negb s   (* skipping is sound only if the payload could not be serialised anyway *)
                                        | _ => wf_desc pd
                                        end
                        end) vs
      && nodupb (map (fun x => match x with (_, n, _) => n end) vs)
      && wf_repr r vs
  | DFlags fl => wf_flags fl
  end.

(* ---------------------------------------------------------------- rename_all (serde_derive case.rs) *)

Definition is_upper (c : N) : bool := (65 <=? c) && (c <=? 90).
Definition is_lower (c : N) : bool := (97 <=? c) && (c <=? 122).
Definition to_lower (c : N) : N := if is_upper c then c + 32 else c.
Definition to_upper (c : N) : N := if is_lower c then c - 32 else c.

Inductive rename := RnNone | RnLower | RnUpper | RnPascal | RnCamel | RnSnake | RnScreamingSnake | RnKebab | RnScreamingKebab.

(* variants are PascalCase in the source *)
Fixpoint snake_of_pascal (s : str) (first : bool) : str :=
  match s with
  | [] => []
  | c :: r => (if is_upper c && negb first then [95; to_lower c] else [to_lower c]) ++ snake_of_pascal r false
  end.

Definition rename_variant (rn : rename) (s : str) : str :=
  match rn with
  | RnNone | RnPascal => s
  | RnLower => map to_lower s
  | RnUpper => map to_upper s
  | RnCamel => match s with c :: r => to_lower c :: r | [] => [] end
  | RnSnake => snake_of_pascal s true
  | RnScreamingSnake => map to_upper (snake_of_pascal s true)
  | RnKebab => map (fun c => if c =? 95 then 45 else c) (snake_of_pascal s true)
  | RnScreamingKebab => map (fun c => if c =? 95 then 45 else to_upper c) (snake_of_pascal s true)
  end.

(* fields are snake_case in the source *)
Fixpoint pascal_of_snake (s : str) (cap : bool) : str :=
  match s with
  | [] => []
  | c :: r => if c =? 95 then pascal_of_snake r true
              else (if cap then to_upper c else c) :: pascal_of_snake r false
  end.

Definition rename_field (rn : rename) (s : str) : str :=
  match rn with
  | RnNone | RnLower | RnSnake => s
  | RnUpper | RnScreamingSnake => map to_upper s
  | RnPascal => pascal_of_snake s true
  | RnCamel => match pascal_of_snake s true with c :: r => to_lower c :: r | [] => [] end
  | RnKebab => map (fun c => if c =? 95 then 45 else c) s
  | RnScreamingKebab => map (fun c => if c =? 95 then 45 else to_upper c) s
  end.
