(* Model of the fraction machinery of /repo/src/quantity.rs over exact rationals.

     FractionLookupTable::{new, lookup}     quantity.rs 633-707
     Number::new_approx                     quantity.rs 735-778
     Number::try_approx                     quantity.rs 783-791
     Number::value                          quantity.rs 105-116
     FractionsConfigHelper::define          convert/units_file.rs 167-179
     ScaledQuantity::try_fraction           convert/mod.rs 607-626 (after the unit's configuration was found)
     round_float, Display for Number        quantity.rs 208-240

   f64 is modelled by [f64 := Fin q | NaN | PInf | NInf] with q : Q exact; IEEE rounding is not
   modelled (DESIGN.md 2.3).  Integer casts `as u32` / `as i16` saturate as Rust defines them.
   Panics (the two assertions of new_approx, the debug assertions of the table constructor, i16
   overflow in lookup) are explicit [Panic site] outcomes.
   The constants come from Gen/FracConsts.v, regenerated from the source on every run. *)
From Coq Require Import List NArith ZArith QArith Qround Qabs Bool Decimal DecimalN.
From CL Require Import Base.Chars Gen.FracConsts.
Import ListNotations.
Local Open Scope Q_scope.

(* ---------- floats, casts ---------- *)

Inductive f64 : Type := Fin (q : Q) | NaN | PInf | NInf.

Definition Qlt_bool (a b : Q) : bool := negb (Qle_bool b a).

Definition N2Q (n : N) : Q := inject_Z (Z.of_N n).

Definition u32_max : Z := 4294967295.
Definition u32_max_N : N := 4294967295.
Definition i16_min : Z := (-32768).
Definition i16_max : Z := 32767.

(* `x as u32` for a float with integral value z (NaN does not occur where it is used) *)
Definition sat_u32 (z : Z) : N :=
  if (z <? 0)%Z then 0%N else if (u32_max <? z)%Z then u32_max_N else Z.to_N z.

(* `x as i16` *)
Definition sat_i16 (z : Z) : Z :=
  if (z <? i16_min)%Z then i16_min else if (i16_max <? z)%Z then i16_max else z.

(* f64::trunc (and the truncation of float-to-int casts): toward zero *)
Definition qtrunc (q : Q) : Z := Z.quot (Qnum q) (Zpos (Qden q)).

(* f64::round: to nearest, halves away from zero *)
Definition qround (q : Q) : Z :=
  if Qle_bool 0 q then Qfloor (q + (1 # 2)) else Qceiling (q - (1 # 2)).

(* ---------- panic sites ---------- *)

Definition site_denoms_empty : N := 1201%N.      (* quantity.rs 647 debug_assert!(!DENOMS.is_empty()) *)
Definition site_denoms_sorted : N := 1202%N.     (* quantity.rs 649 debug_assert!(windows(2).all(<)) *)
Definition site_lookup_sub : N := 1203%N.        (* quantity.rs 695-696 i16 subtraction overflow *)
Definition site_lookup_abs : N := 1204%N.        (* quantity.rs 695-696 i16::abs overflow *)
Definition site_assert_accuracy : N := 1205%N.   (* quantity.rs 736 *)
Definition site_assert_max_den : N := 1206%N.    (* quantity.rs 737 *)

(* ---------- FractionLookupTable (quantity.rs 633-707) ---------- *)

(* Vec<(i16, (u8, u8))>: (fixed, (num, den)) *)
Definition entry : Type := (Z * (N * N))%type.
Definition ekey (e : entry) : Z := fst e.
Definition enum (e : entry) : N := fst (snd e).
Definition eden (e : entry) : N := snd (snd e).

(* `(val * Self::FIX_RATIO) as i16`  (lines 658 and 676) *)
Definition fixed_of (val : Q) : Z := sat_i16 (qtrunc (val * fix_ratio)).

(* lines 664-666: binary_search_by_key on the sorted, duplicate-free vector; Err(pos) => insert
   at pos, Ok(_) => keep the entry already there *)
Fixpoint insert_entry (e : entry) (t : list entry) : list entry :=
  match t with
  | [] => [e]
  | h :: r =>
      if (ekey e <? ekey h)%Z then e :: t
      else if (ekey e =? ekey h)%Z then t
      else h :: insert_entry e r
  end.

(* `for num in 1..den` *)
Definition nums_of (den : N) : list N := map N.of_nat (seq 1 (N.to_nat den - 1)).

(* the (fixed, (num, den)) triples in the order the two loops of lines 652-668 produce them *)
Definition table_entries (ds : list N) : list entry :=
  flat_map (fun den => map (fun num => (fixed_of (N2Q num / N2Q den), (num, den))) (nums_of den)) ds.

Fixpoint strictly_increasing (l : list N) : bool :=
  match l with
  | a :: (b :: _) as r => (a <? b)%N && strictly_increasing r
  | _ => true
  end.

Definition build_table (ds : list N) : list entry :=
  fold_left (fun t e => insert_entry e t) (table_entries ds) [].

(* FractionLookupTable::new (lines 643-673), i.e. the value of the LazyLock TABLE *)
Definition table_new : outcome (list entry) :=
  match denoms with
  | [] => Panic site_denoms_empty
  | _ => if strictly_increasing denoms then Done (build_table denoms) else Panic site_denoms_sorted
  end.

(* t[..pos], t[pos..] where pos is the partition point of `key < fixed` (what the binary search
   of line 678 returns, Ok or Err, on a vector with strictly increasing keys) *)
Fixpoint split_at_key (fixed : Z) (t : list entry) : list entry * list entry :=
  match t with
  | [] => ([], [])
  | e :: r =>
      if (ekey e <? fixed)%Z then let (lo, hi) := split_at_key fixed r in (e :: lo, hi)
      else ([], t)
  end.

Definition den_ok (max_den : N) (e : entry) : bool := (eden e <=? max_den)%N.

Definition i16_sub (a b : Z) : outcome Z :=
  let r := (a - b)%Z in
  if ((i16_min <=? r) && (r <=? i16_max))%Z then Done r else Panic site_lookup_sub.

Definition i16_abs (a : Z) : outcome Z :=
  if (a =? i16_min)%Z then Panic site_lookup_abs else Done (Z.abs a).

(* FractionLookupTable::lookup (lines 675-706) *)
Definition lookup (t : list entry) (val : Q) (max_den : N) : outcome (option (N * N)) :=
  let fixed := fixed_of val in
  let (lo, hi) := split_at_key fixed t in
  let found :=
    match hi with
    | e :: _ => if (ekey e =? fixed)%Z && den_ok max_den e then Some e else None
    | [] => None
    end in
  match found with
  | Some e => Done (Some (snd e))
  | None =>
      let high := find (den_ok max_den) hi in
      let low := find (den_ok max_den) (rev lo) in
      match low, high with
      | None, Some b => Done (Some (snd b))
      | Some a, None => Done (Some (snd a))
      | None, None => Done None
      | Some a, Some b =>
          obind (i16_sub (ekey a) fixed) (fun da =>
          obind (i16_abs da) (fun a_err =>
          obind (i16_sub (ekey b) fixed) (fun db =>
          obind (i16_abs db) (fun b_err =>
          (* a_err.cmp(&b_err).then(a.1.cmp(&b.1)).is_le() *)
          if (a_err <? b_err)%Z || ((a_err =? b_err)%Z && (eden a <=? eden b)%N)
          then Done (Some (snd a)) else Done (Some (snd b))))))
      end
  end.

(* ---------- Number (quantity.rs 69-116) ---------- *)

Inductive number : Type :=
| Regular (v : Q)
| Fraction (whole num den : N) (err : Q).

(* Number::value: whole as f64 + err + num as f64 / den as f64 (den = 0 gives inf or NaN) *)
Definition value (x : number) : f64 :=
  match x with
  | Regular v => Fin v
  | Fraction w n d e =>
      if (d =? 0)%N then (if (n =? 0)%N then NaN else PInf)
      else Fin (N2Q w + e + N2Q n / N2Q d)
  end.

Definition err_of (x : number) : Q :=
  match x with Regular _ => 0 | Fraction _ _ _ e => e end.

(* ---------- Number::new_approx (quantity.rs 735-778) ---------- *)

(* [sentinel_on_cast = true] is the code as found: a whole part that saturates the cast is detected
   by `whole == u32::MAX`, which also rejects the exact value u32::MAX.  [false] is the repaired
   test `value > u32::MAX as f64`. *)
Record cfg : Type := { sentinel_on_cast : bool }.
Definition cfg0 : cfg := {| sentinel_on_cast := true |}.
Definition cfgF : cfg := {| sentinel_on_cast := false |}.

Definition new_approx (c : cfg) (value accuracy : f64) (max_den max_whole : N)
  : outcome (option number) :=
  match accuracy with
  | Fin acc =>
    if negb (Qle_bool acc_lo acc && Qle_bool acc acc_hi) then Panic site_assert_accuracy
    else if negb (max_den <=? assert_max_den)%N then Panic site_assert_max_den
    else
    match value with
    | Fin v =>
      if Qle_bool v 0 then Done None else
      let max_err := acc * v in
      let whole := sat_u32 (qtrunc v) in
      let decimal := v - inject_Z (qtrunc v) in
      if (max_whole <? whole)%N
         || (if sentinel_on_cast c then (whole =? u32_max_N)%N else Qlt_bool (inject_Z u32_max) v)
      then Done None else
      if Qlt_bool decimal regular_eps then Done (Some (Regular v)) else
      let rounded := sat_u32 (qround v) in
      let round_err := v - inject_Z (qround v) in
      if Qlt_bool (Qabs round_err) max_err && (0 <? rounded)%N && (rounded <=? max_whole)%N
      then Done (Some (Fraction rounded 0 1 round_err)) else
      obind table_new (fun t =>
      obind (lookup t decimal max_den) (fun r =>
      match r with
      | None => Done None
      | Some (num, den) =>
          let approx_value := N2Q whole + N2Q num / N2Q den in
          let err := v - approx_value in
          if Qlt_bool max_err (Qabs err) then Done None
          else Done (Some (Fraction whole num den err))
      end))
    | _ => Done None            (* !value.is_finite() *)
    end
  | _ => Panic site_assert_accuracy   (* NaN and the infinities are not in 0.0..=1.0 *)
  end.

(* ---------- Number::try_approx (quantity.rs 783-791) ---------- *)

(* `match Self::new_approx(self.value(), accuracy, max_den, max_whole)`: what is approximated is
   [value self] - for a number that already is a stored fraction that is whole + err + num/den, the
   recorded error included.  `Some(f) => { *self = f; true }`, `None => false`.
   Result: `self` after the call and the returned flag. *)
Definition try_approx (c : cfg) (x : number) (accuracy : f64) (max_den max_whole : N)
  : outcome (number * bool) :=
  obind (new_approx c (value x) accuracy max_den max_whole) (fun r =>
  match r with
  | Some f => Done (f, true)
  | None => Done (x, false)
  end).

(* the parameters of one call: (accuracy, max_den, max_whole) *)
Definition params : Type := (f64 * N * N)%type.

(* successive calls on the same `&mut Number`: the number after each call with the returned flag *)
Fixpoint try_approx_seq (c : cfg) (x : number) (ps : list params) : outcome (list (number * bool)) :=
  match ps with
  | [] => Done []
  | (acc, md, mw) :: r =>
      obind (try_approx c x acc md mw) (fun s =>
      obind (try_approx_seq c (fst s) r) (fun tl => Done (s :: tl)))
  end.

(* ---------- FractionsConfig, FractionsConfigHelper::define ---------- *)

(* FractionsConfig (convert/mod.rs 228-233); accuracy is an f32, a subset of [f64] *)
Record frac_config : Type :=
  { fc_enabled : bool; fc_accuracy : f64; fc_max_den : N; fc_max_whole : N }.

(* FractionsConfigHelper (units_file.rs 140-149): one fully merged layer of a units file *)
Record frac_helper : Type :=
  { fh_enabled : option bool; fh_accuracy : option f64; fh_max_den : option N; fh_max_whole : option N }.

(* f32::clamp: `if self < min { min } else if self > max { max } else { self }`, NaN stays NaN *)
Definition clamp_f (lo hi : Q) (x : f64) : f64 :=
  match x with
  | Fin q => if Qlt_bool q lo then Fin lo else if Qlt_bool hi q then Fin hi else Fin q
  | NaN => NaN
  | PInf => Fin hi
  | NInf => Fin lo
  end.

(* Ord::clamp on u8 *)
Definition clamp_n (lo hi x : N) : N :=
  if (x <? lo)%N then lo else if (hi <? x)%N then hi else x.

Definition opt_or {A : Type} (o : option A) (d : A) : A := match o with Some a => a | None => d end.

(* FractionsConfigHelper::define (units_file.rs 167-179); FractionsConfig::default has enabled = false
   (convert/mod.rs 238), the other defaults and the clamp bounds are regenerated constants *)
Definition define (h : frac_helper) : frac_config :=
  {| fc_enabled := opt_or (fh_enabled h) false;
     fc_accuracy := clamp_f clamp_acc_lo clamp_acc_hi (opt_or (fh_accuracy h) (Fin default_accuracy));
     fc_max_den := clamp_n clamp_den_lo clamp_den_hi (opt_or (fh_max_den h) default_max_den);
     fc_max_whole := opt_or (fh_max_whole h) default_max_whole |}.

(* ---------- ScaledQuantity::try_fraction (convert/mod.rs 607-626) ---------- *)

(* Value (quantity.rs): Number | Range { start, end } | Text (the text itself plays no role) *)
Inductive qvalue : Type := VNumber (n : number) | VRange (s e : number) | VText.

(* the part after `let cfg = converter.fractions_config(&unit)` (finding the unit and its configuration
   layers is Model/Convert.v's subject): `if !cfg.enabled { return false }`, then try_approx on the
   number, or on the ends of a range with the short-circuit `start.try_approx(..) || end.try_approx(..)`.
   Result: the value after the call and the returned flag. *)
Definition try_fraction (c : cfg) (fc : frac_config) (v : qvalue) : outcome (qvalue * bool) :=
  if negb (fc_enabled fc) then Done (v, false) else
  let try := fun n => try_approx c n (fc_accuracy fc) (fc_max_den fc) (fc_max_whole fc) in
  match v with
  | VNumber n => obind (try n) (fun r => Done (VNumber (fst r), snd r))
  | VRange s e =>
      obind (try s) (fun rs =>
      if snd rs then Done (VRange (fst rs) e, true)
      else obind (try e) (fun re => Done (VRange (fst rs) (fst re), snd re)))
  | VText => Done (v, false)
  end.

(* ---------- Display (quantity.rs 208-240) ---------- *)

Fixpoint uint_codes (d : Decimal.uint) : str :=
  match d with
  | Nil => []
  | D0 r => 48%N :: uint_codes r | D1 r => 49%N :: uint_codes r | D2 r => 50%N :: uint_codes r
  | D3 r => 51%N :: uint_codes r | D4 r => 52%N :: uint_codes r | D5 r => 53%N :: uint_codes r
  | D6 r => 54%N :: uint_codes r | D7 r => 55%N :: uint_codes r | D8 r => 56%N :: uint_codes r
  | D9 r => 57%N :: uint_codes r
  end.

(* `{}` of a u32 *)
Definition dec (n : N) : str := uint_codes (N.to_uint n).

Definition c_space : N := 32%N.
Definition c_slash : N := 47%N.

(* (n * 1000.0).round() / 1000.0 *)
Definition round_float (n : Q) : Q := inject_Z (qround (n * 1000)) / 1000.

Definition is_zero (x : f64) : bool :=
  match x with Fin q => Qeq_bool q 0 | _ => false end.

Section Display.
  (* oracles: `{}` and `{:+}` of an f64 (shortest round-trip digits, std::fmt) *)
  Variable fmt_f64 : Q -> str.
  Variable fmt_f64_plus : Q -> str.

  Definition display (alternate : bool) (x : number) : str :=
    match x with
    | Regular n => fmt_f64 (round_float n)
    | Fraction w n d err =>
        if is_zero (value x) then fmt_f64 0 else
        (if (w =? 0)%N && (n =? 0)%N then fmt_f64 0
         else if (w =? 0)%N then dec n ++ [c_slash] ++ dec d
         else if (n =? 0)%N then dec w
         else dec w ++ [c_space] ++ dec n ++ [c_slash] ++ dec d)
        ++ (if alternate && Qlt_bool (1 # 1000) (Qabs err)
            then [32%N; 40%N] ++ fmt_f64_plus (round_float err) ++ [41%N] else [])
    end.
End Display.

(* the reader of the printed forms `w`, `n/d`, `w n/d` *)
Definition digit_of (c : N) : option (Decimal.uint -> Decimal.uint) :=
  if (c =? 48)%N then Some D0 else if (c =? 49)%N then Some D1 else if (c =? 50)%N then Some D2
  else if (c =? 51)%N then Some D3 else if (c =? 52)%N then Some D4 else if (c =? 53)%N then Some D5
  else if (c =? 54)%N then Some D6 else if (c =? 55)%N then Some D7 else if (c =? 56)%N then Some D8
  else if (c =? 57)%N then Some D9 else None.

Fixpoint read_uint (s : str) : Decimal.uint * str :=
  match s with
  | [] => (Nil, [])
  | c :: r =>
      match digit_of c with
      | Some D => let (u, rest) := read_uint r in (D u, rest)
      | None => (Nil, s)
      end
  end.

Definition read_nat (s : str) : option (N * str) :=
  let (u, rest) := read_uint s in
  match u with Nil => None | _ => Some (N.of_uint u, rest) end.

Definition read_frac (s : str) : option (N * N) :=
  match read_nat s with
  | Some (n, c :: r) =>
      if (c =? c_slash)%N then
        match read_nat r with Some (d, []) => Some (n, d) | _ => None end
      else None
  | _ => None
  end.

Definition read_display (s : str) : option Q :=
  match read_nat s with
  | Some (a, []) => Some (N2Q a)
  | Some (a, c :: r) =>
      if (c =? c_slash)%N then
        match read_nat r with Some (d, []) => Some (N2Q a / N2Q d) | _ => None end
      else if (c =? c_space)%N then
        match read_frac r with Some (n, d) => Some (N2Q a + N2Q n / N2Q d) | None => None end
      else None
  | None => None
  end.
