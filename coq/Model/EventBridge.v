(* The bridge between the two event vocabularies of the pipeline model.

   Model/Parser.v produces [pevent]s (every span and every diagnostic label kept, numbers as
   written: decimal literal or whole/num/den); Model/Analysis.v consumes [Events.event]s
   (what src/analysis/event_consumer.rs looks at).  At run time the two are tied through the
   implementation: runner/events_print.ml prints a [pevent] in the format of
   harness/src/evcanon.rs (compared token for token with the implementation's events), and
   harness/src/bin/analysis.rs prints the implementation's events in the encoding that
   runner/analysis_main.ml ([p_event]) reads into an [Events.event].  [abstract_event] is the
   composition of the two, field by field:

     evcanon.rs / events_print.ml            analysis.rs / analysis_main.ml
     Y T..                                   Y text                      EYaml t   (texts: [abstract_text])
     M key value                             M text text                 EMetadata k v
     S name                                  S opt_text                  ESection n
     B1 | B0, E1 | E0                        B <1|0>, E <1|0>            EStart/EEnd BKStep|BKText
     X text                                  X text                      EText t
     I mods=<bits>@.. inter=<r|n><s|t>:<v>.. I a b bits [mode kind val]  EIngredient: span, mods_of_bits,
        name alias qty note @a-b                name alias qty note         RMRelative/TKSection flags, Z val
     C ..                                    C a b bits name alias ..    ECookware (quantity: value + lock flag)
     R name qty @a-b                         R a b name qty              ETimer
     D <e|w> labels                          D <e|w>                     EError 0 | EWarning 0

   A number is [Number::value()] (quantity.rs): the literal itself, or whole + num/den; the
   scaling lock is kept as "was written" ([Option::is_some]); the spans of modifiers,
   quantities, units and intermediate data and the labels of diagnostics are dropped.
   One parser event is one analysis event, so the bridge is a total function and a stream is
   bridged with [map]. *)
From Coq Require Import QArith ZArith.
From CL Require Import Model.Parser.
From CL Require Model.Events.
Close Scope Q_scope.
Open Scope N_scope.

(* Number::value(): Regular(v) => v, Fraction{whole,num,den} => whole + num/den.  The parser
   only builds a fraction with den <> 0 (D_DIV_ZERO otherwise); for den = 0 the model value is
   whole + num/1, which no stream of [events] contains. *)
Definition num_q (n : num) : Q :=
  match n with
  | NReg q => q
  | NFrac w a d => Qplus (inject_Z (Z.of_N w)) (Qmake (Z.of_N a) (N.succ_pos (N.pred d)))
  end.

(* a text: analysis.rs encodes a [Text] as its span start, then its fragments; analysis_main.ml
   reads the first number as [toff].  For a text without fragments that is its offset; with
   fragments it is the offset of the first one (the [offset] of TextData is only kept for empty
   texts in src/text.rs).  [text_span], [text_str] and the fragments are unchanged. *)
Definition abstract_text (t : text) : text := {| toff := fst (text_span t); frags := frags t |}.

Definition abstract_value (v : value) : Events.pvalue :=
  match v with
  | VNum n => Events.VNumber (num_q n)
  | VRange a b => Events.VRange (num_q a) (num_q b)
  | VText s => Events.VText s
  end.

Definition abstract_qvalue (v : qvalue) : Events.pqvalue :=
  {| Events.qv_value := abstract_value (qv v);
     Events.qv_lock := match qlock v with Some _ => true | None => false end |}.

Definition abstract_quantity (q : quantity) : Events.pquantity :=
  {| Events.pq_value := abstract_qvalue (q_val q); Events.pq_unit := option_map abstract_text (q_unit q) |}.

Definition abstract_inter (d : interdata) : Events.inter_data :=
  {| Events.ir_mode := if im_relative d then Events.RMRelative else Events.RMNumber;
     Events.ir_kind := if im_section d then Events.TKSection else Events.TKStep;
     Events.ir_val := Z.of_N (im_val d) |}.

Definition abstract_kind (is_step : bool) : Events.block_kind := if is_step then Events.BKStep else Events.BKText.

Definition abstract_event (ev : pevent) : Events.event :=
  match ev with
  | EvYaml t => Events.EYaml (abstract_text t)
  | EvMetadata k v => Events.EMetadata (abstract_text k) (abstract_text v)
  | EvSection n => Events.ESection (option_map abstract_text n)
  | EvStart b => Events.EStart (abstract_kind b)
  | EvEnd b => Events.EEnd (abstract_kind b)
  | EvText t => Events.EText (abstract_text t)
  | EvIngredient i =>
      Events.EIngredient
        {| Events.pi_span := i_span i; Events.pi_mods := Events.mods_of_bits (i_mods i);
           Events.pi_inter := option_map abstract_inter (i_inter i);
           Events.pi_name := abstract_text (i_name i); Events.pi_alias := option_map abstract_text (i_alias i);
           Events.pi_quantity := option_map abstract_quantity (i_qty i); Events.pi_note := option_map abstract_text (i_note i) |}
  | EvCookware c =>
      Events.ECookware
        {| Events.pc_span := c_span c; Events.pc_mods := Events.mods_of_bits (c_mods c);
           Events.pc_name := abstract_text (c_name c); Events.pc_alias := option_map abstract_text (c_alias c);
           Events.pc_quantity := option_map (fun q => abstract_qvalue (fst q)) (c_qty c);
           Events.pc_note := option_map abstract_text (c_note c) |}
  | EvTimer t =>
      Events.ETimer {| Events.pt_span := t_span t; Events.pt_name := option_map abstract_text (t_name t);
                  Events.pt_quantity := option_map abstract_quantity (t_qty t) |}
  | EvDiag d => if d_err d then Events.EError 0 else Events.EWarning 0
  end.

Definition abstract_events (evs : list pevent) : list Events.event := map abstract_event evs.
