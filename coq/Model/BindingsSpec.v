(* What property C19 says, written without reference to how model.rs computes it:
   the mirror relation between a core recipe and its FFI view, reference resolution, the
   reference lists, and the per-key sum that combining ingredients must produce. *)
From Coq Require Import QArith Permutation.
From CL Require Import Base.Chars Model.Bindings.
Open Scope N_scope.

(* ------------------------------------------------------------------ mirror *)

(* same variant, same numbers / text (a core value is never "empty") *)
Inductive value_mirrors : cvalue -> bvalue -> Prop :=
| VM_num x : value_mirrors (CNum x) (BNum x)
| VM_range a b : value_mirrors (CRange a b) (BRange a b)
| VM_text s : value_mirrors (CTextV s) (BText s).

(* amount = value / unit *)
Definition qty_mirrors (q : option cqty) (a : option amount) : Prop :=
  match q, a with
  | None, None => True
  | Some q, Some a => value_mirrors (cq_val q) (am_q a) /\ am_units a = cq_unit q
  | _, _ => False
  end.
(* cookware: a bare value becomes an amount without unit *)
Definition val_mirrors (v : option cvalue) (a : option amount) : Prop :=
  match v, a with
  | None, None => True
  | Some v, Some a => value_mirrors v (am_q a) /\ am_units a = None
  | _, _ => False
  end.

Definition ing_mirrors (c : cing) (b : bing) : Prop :=
  bi_name b = ci_name c /\ qty_mirrors (ci_qty c) (bi_amount b) /\ bi_descr b = ci_note c.
Definition cw_mirrors (c : ccw) (b : bcw) : Prop :=
  bc_name b = cc_name c /\ val_mirrors (cc_qty c) (bc_amount b).
(* documented difference: a timer without name is exposed with the empty name *)
Definition tm_mirrors (c : ctm) (b : btm) : Prop :=
  bt_name b = Some (match ct_name c with Some n => n | None => [] end) /\ qty_mirrors (ct_qty c) (bt_amount b).

(* documented losses: an inline quantity is exposed as an empty text; an index is exposed as u32 *)
Definition item_mirrors (c : citem) (b : bitem) : Prop :=
  match c with
  | CIText s => b = BIText s
  | CIIng i => b = BIIng (as_u32 i)
  | CICw i => b = BICw (as_u32 i)
  | CITm i => b = BITm (as_u32 i)
  | CIInline _ => b = BIText []
  end.

Definition block_mirrors (c : ccontent) (b : bblock) : Prop :=
  match c, b with
  | CStepC items, BStepBlock st => Forall2 item_mirrors items (bs_items st)
  | CTextC t, BNoteBlock t' => t' = t
  | _, _ => False
  end.

Definition section_mirrors (c : csection) (b : bsection) : Prop :=
  bsec_title b = cs_name c /\ Forall2 block_mirrors (cs_content c) (bsec_blocks b).

(* [Forall2]: same length, same order *)
Definition recipe_mirrors (c : crecipe) (b : brecipe) : Prop :=
  Forall2 section_mirrors (cr_sections c) (br_sections b) /\
  Forall2 ing_mirrors (cr_ings c) (br_ings b) /\
  Forall2 cw_mirrors (cr_cws c) (br_cws b) /\
  Forall2 tm_mirrors (cr_tms c) (br_tms b).

(* ------------------------------------------------------------------ reference lists *)

Fixpoint irefs_of (l : list bitem) : list N :=
  match l with [] => [] | BIIng i :: r => i :: irefs_of r | _ :: r => irefs_of r end.
Fixpoint crefs_of (l : list bitem) : list N :=
  match l with [] => [] | BICw i :: r => i :: crefs_of r | _ :: r => crefs_of r end.
Fixpoint trefs_of (l : list bitem) : list N :=
  match l with [] => [] | BITm i :: r => i :: trefs_of r | _ :: r => trefs_of r end.

(* a step lists the references among its items, in item order *)
Definition step_refs_ok (st : bstep) : Prop :=
  bs_irefs st = irefs_of (bs_items st) /\ bs_crefs st = crefs_of (bs_items st) /\
  bs_trefs st = trefs_of (bs_items st).

Definition block_irefs (b : bblock) : list N := match b with BStepBlock st => bs_irefs st | BNoteBlock _ => [] end.
Definition block_crefs (b : bblock) : list N := match b with BStepBlock st => bs_crefs st | BNoteBlock _ => [] end.
Definition block_trefs (b : bblock) : list N := match b with BStepBlock st => bs_trefs st | BNoteBlock _ => [] end.

(* a section lists the concatenation of its steps' lists *)
Definition section_refs_ok (s : bsection) : Prop :=
  bsec_irefs s = flat_map block_irefs (bsec_blocks s) /\
  bsec_crefs s = flat_map block_crefs (bsec_blocks s) /\
  bsec_trefs s = flat_map block_trefs (bsec_blocks s).

Definition block_refs_ok (b : bblock) : Prop :=
  match b with BStepBlock st => step_refs_ok st | BNoteBlock _ => True end.

(* ------------------------------------------------------------------ reference resolution *)

(* the index-in-range part of the C06 invariant (AnalysisSpec.recipe_ok / blind_indexing_ok) *)
Definition item_in_range (r : crecipe) (it : citem) : Prop :=
  match it with
  | CIIng i => i < N.of_nat (length (cr_ings r))
  | CICw i => i < N.of_nat (length (cr_cws r))
  | CITm i => i < N.of_nat (length (cr_tms r))
  | CIText _ | CIInline _ => True
  end.
Definition content_in_range (r : crecipe) (c : ccontent) : Prop :=
  match c with CStepC items => Forall (item_in_range r) items | CTextC _ => True end.
Definition index_inv (r : crecipe) : Prop :=
  Forall (fun s => Forall (content_in_range r) (cs_content s)) (cr_sections r).

(* the tables are addressable by a u32 (the FFI index type) *)
Definition fits_u32 (r : crecipe) : Prop :=
  N.of_nat (length (cr_ings r)) <= U32 /\ N.of_nat (length (cr_cws r)) <= U32 /\
  N.of_nat (length (cr_tms r)) <= U32.

(* the FFI item [bit] of the core item [it] resolves, in the view [b], to the image of the
   component [it] denotes in [r] *)
Definition item_resolves (r : crecipe) (b : brecipe) (it : citem) (bit : bitem) : Prop :=
  match it with
  | CIText s => deref_component b bit = Done (BCText s)
  | CIInline _ => deref_component b bit = Done (BCText [])
  | CIIng i =>
      exists c x, nth_error (cr_ings r) (N.to_nat i) = Some c /\ ing_mirrors c x /\
        deref_component b bit = Done (BCIng x) /\ deref_ingredient b (as_u32 i) = Done x
  | CICw i =>
      exists c x, nth_error (cr_cws r) (N.to_nat i) = Some c /\ cw_mirrors c x /\
        deref_component b bit = Done (BCCw x) /\ deref_cookware b (as_u32 i) = Done x
  | CITm i =>
      exists c x, nth_error (cr_tms r) (N.to_nat i) = Some c /\ tm_mirrors c x /\
        deref_component b bit = Done (BCTm x) /\ deref_timer b (as_u32 i) = Done x
  end.

Definition block_resolves (r : crecipe) (b : brecipe) (c : ccontent) (bb : bblock) : Prop :=
  match c, bb with
  | CStepC items, BStepBlock st => Forall2 (item_resolves r b) items (bs_items st)
  | CTextC _, BNoteBlock _ => True
  | _, _ => False
  end.

(* every entry of a reference list is a valid index *)
Definition lists_in_range (b : brecipe) (s : bsection) : Prop :=
  Forall (fun j => exists x, deref_ingredient b j = Done x) (bsec_irefs s) /\
  Forall (fun j => exists x, deref_cookware b j = Done x) (bsec_crefs s) /\
  Forall (fun j => exists x, deref_timer b j = Done x) (bsec_trefs s).

Definition refs_resolve (r : crecipe) (b : brecipe) : Prop :=
  Forall2 (fun s bs => Forall2 (block_resolves r b) (cs_content s) (bsec_blocks bs) /\ lists_in_range b bs)
          (cr_sections r) (br_sections b).

(* ------------------------------------------------------------------ combining *)

(* the ingredients named by the indices, one per index, in index order (a repeated index names
   its ingredient again) *)
Definition select (ings : list bing) (idx : list N) : list bing :=
  flat_map (fun i => match nth_error ings (N.to_nat i) with Some x => [x] | None => [] end) idx.

Definition indices_in_range (ings : list bing) (idx : list N) : Prop :=
  Forall (fun i => i < N.of_nat (length ings)) idx.

(* the amounts, in input order, of the inputs called [name] whose (unit, kind) is [k] *)
Definition matching (name : str) (k : gkey) (l : list bing) : list bvalue :=
  map (fun i => amount_value (bi_amount i))
      (filter (fun i => str_eqb (bi_name i) name && gkey_eqb (amount_key (bi_amount i)) k) l).

Definition num_of (v : bvalue) : Q := match v with BNum x => x | _ => 0%Q end.
Definition start_of (v : bvalue) : Q := match v with BRange a _ => a | _ => 0%Q end.
Definition end_of (v : bvalue) : Q := match v with BRange _ b => b | _ => 0%Q end.
Definition text_of (v : bvalue) : str := match v with BText s => s | _ => [] end.
Definition sum_q (l : list Q) : Q := fold_right Qplus 0%Q l.

(* numbers summed, ranges end-wise, texts concatenated in input order, empty stays empty *)
Definition spec_value (t : qtype) (vs : list bvalue) : bvalue :=
  match t with
  | QTNumber => BNum (sum_q (map num_of vs))
  | QTRange => BRange (sum_q (map start_of vs)) (sum_q (map end_of vs))
  | QTText => BText (concat (map text_of vs))
  | QTEmpty => BEmpty
  end.

(* equality of amounts up to the representation of a rational *)
Definition veq (a b : bvalue) : Prop :=
  match a, b with
  | BNum x, BNum y => (x == y)%Q
  | BRange a1 a2, BRange b1 b2 => (a1 == b1)%Q /\ (a2 == b2)%Q
  | BText s, BText t => s = t
  | BEmpty, BEmpty => True
  | _, _ => False
  end.

Definition oveq (a b : option bvalue) : Prop :=
  match a, b with
  | None, None => True
  | Some x, Some y => veq x y
  | _, _ => False
  end.

(* what the list must hold under [name], [k] for the inputs [l]: nothing if no input has that
   key, else the sum of those that have it *)
Definition spec_entry (name : str) (k : gkey) (l : list bing) : option bvalue :=
  match matching name k l with
  | [] => None
  | vs => Some (spec_value (gk_type k) vs)
  end.

(* an association list that is a map: keys pairwise distinct; a value has the kind its key says *)
Definition gq_wf (g : gq) : Prop :=
  NoDup (map fst g) /\
  Forall (fun kv => type_of (snd kv) = gk_type (fst kv)) g.
Definition ilist_wf (l : ilist) : Prop :=
  NoDup (map fst l) /\ Forall (fun e => gq_wf (snd e)) l.

(* full statement of C19_combine_sum *)
Definition combine_sum_statement : Prop :=
  forall ings idx, indices_in_range ings idx ->
    exists l, combine_ingredients_selected ings idx = Done l /\ ilist_wf l /\
      forall name k, oveq (lookup2 l name k) (spec_entry name k (select ings idx)).

(* the sums do not depend on the order of the inputs (a text amount is a concatenation and
   does depend on it: for the kind Text only the set of keys is order-independent) *)
Definition combine_perm_statement : Prop :=
  forall ings ings' l l', Permutation ings ings' ->
    N.of_nat (length ings) <= U32 ->
    combine_ingredients ings = Done l -> combine_ingredients ings' = Done l' ->
    forall name k,
      (gk_type k <> QTText -> oveq (lookup2 l name k) (lookup2 l' name k)) /\
      (lookup2 l name k = None <-> lookup2 l' name k = None).

(* combining a selection = combining the sublist it names (as lists, not only as maps) *)
Definition combine_selected_statement : Prop :=
  forall ings idx, indices_in_range ings idx -> N.of_nat (length idx) <= U32 ->
    combine_ingredients_selected ings idx = combine_ingredients (select ings idx).

(* the six Unexpected-type panics are unreachable from the exported entry points, whatever the
   ingredients (hand-made ones with Empty amounts and units included) and indices *)
Definition no_type_panic_statement : Prop :=
  forall ings idx s,
    (combine_ingredients_selected ings idx = Panic s -> is_type_site s = false) /\
    (combine_ingredients ings = Panic s -> is_type_site s = false).
