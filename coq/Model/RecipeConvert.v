(* Model of the recipe-level conversion, /repo/src/convert/mod.rs 415-453:
     impl ScaledRecipe { pub fn convert(&mut self, to: System, converter: &Converter) -> Vec<ConvertError> }
   on top of Model/Convert.v (ScaledQuantity::convert = [convert_impl], mod.rs 455-499) and the
   scaled-recipe type of Model/Scale.v (model.rs 27-44: metadata and sections are the opaque
   frame MF, the frames of ingredients / cookware are IF / CF, `data` is [r_data]).

   `&mut self` is modelled by returning the recipe after the call; the `errors` vector by a list
   in push order.  A panic inside a quantity conversion unwinds out of the whole call: [Panic].
   What the function does NOT touch is visible in the model as the fields copied verbatim:
   metadata, sections (steps, items), cookware ("cookware can't have units", mod.rs 439), data. *)
From CL Require Export Model.Scale.
Open Scope Q_scope.

(* impl From<System> for ConvertTo, mod.rs 805-809 (`let to = ConvertTo::from(to)`, mod.rs 425) *)
Definition cto_of_system (s : system) : cto := ToBest s.

Section RecipeConvert.
  Variable approx : Q -> frac_cfg -> outcome (option number).
  Variable c : converter.

  (* ScaledQuantity::convert, mod.rs 456-462: `self.convert_impl(to.into(), converter)`.
     `self` after the call and the result. *)
  Definition quantity_convert (q : quantity) (to : cto) : outcome (quantity * result Datatypes.unit) :=
    convert_impl approx c q to.

  (* the closure `conv`, mod.rs 427-431:
       |q: &mut ScaledQuantity| { if let Err(e) = q.convert(to, converter) { errors.push(e) } }
     the quantity after the call (whatever convert left in it) and the errors vector after the call;
     an Ok result pushes nothing, an Err pushes exactly that error at the end *)
  Definition conv_closure (to : cto) (q : quantity) (errors : list cerror)
    : outcome (quantity * list cerror) :=
    obind (quantity_convert q to) (fun r =>
    match snd r with
    | Ok _ => Done (fst r, errors)
    | Err e => Done (fst r, errors ++ [e])
    end).

  (* the three `for` loops, mod.rs 433-437, 441-445, 447-449: the items in order; an item without
     a quantity (`if let Some(q) = &mut x.quantity` fails) is skipped; [get] reads the quantity slot
     of an item, [set] writes the converted quantity back into the same slot *)
  Section Loop.
    Context {A : Type}.
    Variable get : A -> option quantity.
    Variable set : A -> quantity -> A.

    Fixpoint conv_each (to : cto) (l : list A) (errors : list cerror)
      : outcome (list A * list cerror) :=
      match l with
      | [] => Done ([], errors)
      | a :: rest =>
          obind (match get a with
                 | Some q => obind (conv_closure to q errors) (fun r => Done (set a (fst r), snd r))
                 | None => Done (a, errors)
                 end) (fun ae =>
          obind (conv_each to rest (snd ae)) (fun re => Done (fst ae :: fst re, snd re)))
      end.
  End Loop.

  Context {IF CF MF : Type}.

  (* `igr.quantity` of Ingredient (model.rs 174-190): every other field is the frame *)
  Definition ig_set (i : ingredient IF) (q : quantity) : ingredient IF :=
    {| ig_frame := ig_frame i; ig_quantity := Some q |}.
  (* `timer.quantity` of Timer (model.rs 536-549) *)
  Definition tm_set (t : timer) (q : quantity) : timer :=
    {| tm_name := tm_name t; tm_quantity := Some q |}.
  (* an inline quantity is its own slot *)
  Definition iq_get (q : quantity) : option quantity := Some q.
  Definition iq_set (_ q : quantity) : quantity := q.

  (* ScaledRecipe::convert, mod.rs 422-452 *)
  Definition recipe_convert (to : system) (r : recipe IF CF MF)
    : outcome (recipe IF CF MF * list cerror) :=
    let errors := [] in                                                      (* 423 *)
    let to := cto_of_system to in                                            (* 425 *)
    obind (conv_each ig_quantity ig_set to (r_ingredients r) errors) (fun a =>   (* 433-437 *)
    (* cookware can't have units                                                439 *)
    obind (conv_each tm_quantity tm_set to (r_timers r) (snd a)) (fun b =>       (* 441-445 *)
    obind (conv_each iq_get iq_set to (r_inline r) (snd b)) (fun d =>            (* 447-449 *)
    Done ({| r_frame := r_frame r;
             r_ingredients := fst a;
             r_cookware := r_cookware r;
             r_timers := fst b;
             r_inline := fst d;
             r_data := r_data r |}, snd d)))).                               (* 451 *)
End RecipeConvert.

Arguments recipe_convert _ _ {IF CF MF} _ _.
Arguments ig_set {IF} _ _.
