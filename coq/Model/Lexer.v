(* Model of /repo/src/lexer/mod.rs (advance_token 102-160, line_comment,
   block_comment, word, whitespace, number 162-208, is_whitespace,
   is_word_char 84-100), /repo/src/lexer/cursor.rs and the span accumulation of
   /repo/src/parser/token_stream.rs 25-41.

   Unicode classification is a parameter [U]; theorems hold for every [U].
   The runner instantiates it with Gen/CharClass.v (dumped from the
   implementation on every run). *)
From CL Require Export Base.Chars.

Inductive tkind :=
| KMeta | KTextStep | KColon | KAt | KHash | KTilde | KQuestion | KPlus | KMinus
| KSlash | KStar | KAnd | KOr | KEq | KPercent | KOpenBrace | KCloseBrace
| KOpenParen | KCloseParen | KDot | KInt | KZeroInt | KPunct | KWord | KEscaped
| KWs | KNewline | KLineComment | KBlockComment | KEof.

Scheme Equality for tkind.
Definition tk_eqb := tkind_beq.

(* what the lexer and parser ask about a character *)
Record ucls := {
  u_alpha : bool;   (* char::is_alphabetic *)
  u_zs : bool;      (* finl_unicode is_separator_space (Zs) *)
  u_punct : bool;   (* finl_unicode is_punctuation (P* ) *)
  u_ws : bool;      (* char::is_whitespace *)
  u_alnum : bool    (* char::is_alphanumeric *)
}.

Record tok := { kind : tkind; tstr : str; tstart : N }.
Definition tend (t : tok) : N := tstart t + blen (tstr t).

Definition is_digit (c : N) : bool := (48 <=? c) && (c <=? 57).

Definition next_is (d : N) (r : str) : bool :=
  match r with x :: _ => x =? d | [] => false end.

Fixpoint span_while (p : N -> bool) (s : str) : str * str :=
  match s with
  | [] => ([], [])
  | c :: r => if p c then let '(a, b) := span_while p r in (c :: a, b) else ([], s)
  end.

(* after "[-": up to and including the first "-]", or everything *)
Fixpoint block_body (s : str) : str * str :=
  match s with
  | [] => ([], [])
  | c :: r =>
      if (c =? 45) && next_is 93 r then ([c; 93], tl r)
      else let '(a, b) := block_body r in (c :: a, b)
  end.

Section Lex.
  Variable U : N -> ucls.

  Definition is_lex_ws (c : N) : bool := u_zs (U c) || (c =? 9).

  (* chars with an explicit `false` arm in is_word_char *)
  Definition word_break_ascii (c : N) : bool :=
    (c =? 32) || (c =? 10) || (c =? 13) || (c =? 9) || is_digit c || (c =? 46)
    || (c =? 62) || (c =? 58) || (c =? 64) || (c =? 35) || (c =? 126) || (c =? 63)
    || (c =? 43) || (c =? 45) || (c =? 47) || (c =? 42) || (c =? 38) || (c =? 124)
    || (c =? 61) || (c =? 37) || (c =? 123) || (c =? 125) || (c =? 40) || (c =? 41).

  Definition is_word_char (c : N) : bool :=
    if u_alpha (U c) then true
    else if word_break_ascii c then false
    else if u_zs (U c) || u_punct (U c) then false
    else true.

  (* single-character tokens of the big match (after the special arms) *)
  Definition single_kind (c : N) : option tkind :=
    if c =? 58 then Some KColon else if c =? 64 then Some KAt
    else if c =? 35 then Some KHash else if c =? 126 then Some KTilde
    else if c =? 63 then Some KQuestion else if c =? 43 then Some KPlus
    else if c =? 47 then Some KSlash else if c =? 42 then Some KStar
    else if c =? 38 then Some KAnd else if c =? 124 then Some KOr
    else if c =? 37 then Some KPercent else if c =? 61 then Some KEq
    else if c =? 123 then Some KOpenBrace else if c =? 125 then Some KCloseBrace
    else if c =? 40 then Some KOpenParen else if c =? 41 then Some KCloseParen
    else if c =? 46 then Some KDot else None.

  (* advance_token on a non-empty input: kind, the token's characters, the rest *)
  Definition lex_one (c : N) (r : str) : tkind * str * str :=
    if c =? 92 then
      match r with
      | d :: r' => (KEscaped, [c; d], r')
      | [] => (KEscaped, [c], [])
      end
    else if c =? 62 then
      if next_is 62 r then (KMeta, [c; 62], tl r) else (KTextStep, [c], r)
    else if c =? 45 then
      if next_is 45 r then
        let '(a, b) := span_while (fun x => negb (x =? 10)) r in (KLineComment, c :: a, b)
      else (KMinus, [c], r)
    else if (c =? 91) && next_is 45 r then
      let '(a, b) := block_body (tl r) in (KBlockComment, c :: 45 :: a, b)
    else if c =? 10 then (KNewline, [c], r)
    else if (c =? 13) && next_is 10 r then (KNewline, [c; 10], tl r)
    else if is_digit c then
      let '(a, b) := span_while is_digit r in
      (match a with
       | [] => KInt
       | _ => if c =? 48 then KZeroInt else KInt
       end, c :: a, b)
    else
      match single_kind c with
      | Some k => (k, [c], r)
      | None =>
          if is_lex_ws c then
            let '(a, b) := span_while is_lex_ws r in (KWs, c :: a, b)
          else if u_punct (U c) then (KPunct, [c], r)
          else let '(a, b) := span_while is_word_char r in (KWord, c :: a, b)
      end.

  (* the whole token stream; fuel = number of characters (each token takes >= 1) *)
  Fixpoint lex_fuel (fuel : nat) (s : str) (off : N) : option (list tok) :=
    match s with
    | [] => Some []
    | c :: r =>
        match fuel with
        | O => None
        | S f =>
            let '(k, t, rest) := lex_one c r in
            match lex_fuel f rest (off + blen t) with
            | Some ts => Some ({| kind := k; tstr := t; tstart := off |} :: ts)
            | None => None
            end
        end
    end.

  (* TokenStream::new(s) then offset(off) *)
  Definition lex_at (s : str) (off : N) : option (list tok) := lex_fuel (length s) s off.
  Definition lex (s : str) : option (list tok) := lex_at s 0.
End Lex.
