(* An independent scanner for comments (property C05): which characters of an input lie
   inside a `-- ...` line comment or a `[- ... -]` block comment, honouring backslash
   escapes.  It does not use the lexer: it is a five-state machine reading one character
   at a time with one character of look-ahead.  The Rust twin used by the run-time monitor
   is `comment_mask` in /verif/harness/src/bin/pmon.rs.  Proofs/MaskProofs.v shows that it
   marks exactly the characters of the lexer's comment tokens. *)
From CL Require Export Base.Chars Model.Lexer.

Inductive mstate := MNormal | MEsc | MLine | MOpen | MBody | MClose.

Fixpoint scan (st : mstate) (s : str) : list bool :=
  match s with
  | [] => []
  | c :: r =>
      match st with
      | MNormal =>
          if c =? 92 then false :: scan MEsc r
          else if (c =? 45) && next_is 45 r then true :: scan MLine r
          else if (c =? 91) && next_is 45 r then true :: scan MOpen r
          else false :: scan MNormal r
      | MEsc => false :: scan MNormal r                 (* the escaped character *)
      | MLine => if c =? 10 then false :: scan MNormal r else true :: scan MLine r
      | MOpen => true :: scan MBody r                   (* the `-` of `[-` *)
      | MBody => if (c =? 45) && next_is 93 r then true :: scan MClose r else true :: scan MBody r
      | MClose => true :: scan MNormal r                (* the `]` of `-]` *)
      end
  end.

(* one flag per character of the input: true = inside a comment *)
Definition mask (s : str) : list bool := scan MNormal s.

Definition is_comment (k : tkind) : bool :=
  match k with KLineComment | KBlockComment => true | _ => false end.

(* the same information read off the token stream *)
Definition token_mask (ts : list tok) : list bool :=
  concat (map (fun t => repeat (is_comment (kind t)) (length (tstr t))) ts).

(* token kinds that may hold a letter or a digit *)
Definition content_kind (k : tkind) : bool :=
  match k with KWord | KInt | KZeroInt | KEscaped => true | _ => false end.
