(* Model of /repo/src/text.rs (Text, TextFragment: 14-175) *)
From CL Require Export Base.Chars.

Record frag := { ftext : str; foff : N; fsoft : bool }.
(* TextData::Empty{offset} when [frags] is empty *)
Record text := { toff : N; frags : list frag }.

Definition frag_end (f : frag) : N := foff f + blen (ftext f).

Definition text_empty (off : N) : text := {| toff := off; frags := [] |}.

(* TextData::span *)
Definition text_span (t : text) : N * N :=
  match frags t with
  | [] => (toff t, toff t)
  | f :: _ => (foff f, frag_end (last (frags t) f))
  end.

Definition site_text_append : N := 73.

(* Text::append_fragment: assert!(self.span().end() <= fragment.offset) *)
Definition append_fragment (t : text) (f : frag) : outcome text :=
  if snd (text_span t) <=? foff f then
    match ftext f with
    | [] => Done t
    | _ => Done {| toff := toff t; frags := frags t ++ [f] |}
    end
  else Panic site_text_append.

Definition append_str (t : text) (s : str) (off : N) : outcome text :=
  append_fragment t {| ftext := s; foff := off; fsoft := false |}.

(* Text::from_str *)
Definition text_from_str (s : str) (off : N) : text :=
  match s with
  | [] => text_empty off
  | _ => {| toff := off; frags := [{| ftext := s; foff := off; fsoft := false |}] |}
  end.

(* Text::text: a soft break renders as one ASCII blank *)
Definition text_str (t : text) : str :=
  concat (map (fun f => if fsoft f then [32] else ftext f) (frags t)).

Fixpoint drop_while (p : N -> bool) (s : str) : str :=
  match s with
  | c :: r => if p c then drop_while p r else s
  | [] => []
  end.

Fixpoint trim_end_ws (s : str) : str :=
  match s with
  | [] => []
  | c :: r =>
      match trim_end_ws r with
      | [] => if uni_ws c then [] else [c]
      | r' => c :: r'
      end
  end.

(* str::trim *)
Definition trim (s : str) : str := trim_end_ws (drop_while uni_ws s).

Definition text_outer_trimmed (t : text) : str := trim (text_str t).

(* retain(|c| c != ' ' || prev != ' ') with prev starting as ' ' *)
Fixpoint collapse_spaces (prev : N) (s : str) : str :=
  match s with
  | [] => []
  | c :: r =>
      if negb (c =? 32) || negb (prev =? 32) then c :: collapse_spaces c r
      else collapse_spaces c r
  end.

Definition text_trimmed (t : text) : str := collapse_spaces 32 (text_outer_trimmed t).

Definition str_blank (s : str) : bool := forallb uni_ws s.

(* Text::is_text_empty *)
Definition is_text_empty (t : text) : bool := forallb (fun f => str_blank (ftext f)) (frags t).
